/* C interface between the C++ simulator (built once, repo-independent) and
 * glue.c (compiled against the headers of the repository working tree on
 * every check).  Nothing in here depends on repo struct layouts. */
#ifndef VERIF_SIMAPI_H
#define VERIF_SIMAPI_H
#include <stddef.h>
#include <stdint.h>
#ifdef __cplusplus
extern "C" {
#endif

enum { GLUE_BARE = 0, GLUE_LEGACY = 1, GLUE_DARWIN = 2 };

typedef struct glue_entry_view {
    uint8_t  mac[6];
    uint16_t gen, seq;
    uint8_t  state, complete, valid;
    uint64_t last_ts, created_ts;
} glue_entry_view;

typedef struct glue_view {
    int      have_mapping, have_session, have_enum, have_table, have_mstate, have_band;
    int      mapping_state, session_state, enum_state;
    uint64_t mapping_last_ts, session_last_ts;
    int      mapping_timeout[3]; /* per state, seconds */
    int      session_timeout[4];
    int      ctc;
    uint64_t charge_ts, inactive_ts;
    uint32_t band_Ni, band_r;
    int      band_begun;
    uint64_t band_hello_ts, band_block_ts;
    int      table_count, table_all_complete, table_is_empty_fn, table_all_complete_fn;
    glue_entry_view ent[16];
    uint64_t last_hello_tx_ms;
    int      last_sess_event; /* return value of derive_session_event for the last frame, -99 if not called */
    int      esp_mapping_state, esp_session_state, esp_enum_state; /* -1 if no esp32 side context */
} glue_view;

typedef struct glue_node glue_node;

/* Build the per-interface daemon state the way the ports do (constructors go
 * through lltd_port_malloc).  with_esp32: also keep a real lltd_esp32 context
 * that is handed an exact-length copy of every frame.  Returns NULL only when
 * the node record itself cannot be allocated (plain malloc). */
glue_node *glue_create(int kind, void *iface_ctx, const uint8_t mac[6], int with_esp32, int side_classifier);
void glue_destroy(glue_node *n);
int  glue_usable(glue_node *n); /* all constructors returned objects */
void glue_rx(glue_node *n, void *buf, size_t len);
void glue_esp32_rx(glue_node *n, const void *exact_copy, size_t len);
void glue_tick(glue_node *n);
void glue_view_get(glue_node *n, glue_view *v);
void glue_set_mac(glue_node *n, const uint8_t mac[6]); /* the daemon re-read the interface's hardware address */

/* Direct API surface for the walk drivers (C12b, C13, C14, C15, C16). */
void glue_api_mapping_switch(glue_node *n, int input);
void glue_api_session_switch(glue_node *n, int input);
void glue_api_enum_switch(glue_node *n, int input);
int  glue_api_table_add(glue_node *n, const uint8_t mac[6], uint16_t gen, uint16_t seq);  /* slot index or -1 */
int  glue_api_table_find(glue_node *n, const uint8_t mac[6], uint16_t gen, uint16_t seq); /* slot index or -1 */
void glue_api_table_remove(glue_node *n, const uint8_t mac[6], uint16_t gen);
void glue_api_table_clear(glue_node *n);
void glue_api_table_set_complete(glue_node *n, int slot, int complete); /* + update_complete_status */
void glue_api_band_hello_heard(glue_node *n);
void glue_api_band_set_r(glue_node *n, uint32_t r);       /* fast-forward of r hello_heard calls (C13) */
void glue_api_band_set(glue_node *n, uint32_t Ni, int begun);
void glue_api_band_init(glue_node *n);
void glue_api_band_update_stats(glue_node *n);
uint64_t glue_api_band_choose(glue_node *n);
void glue_api_discover_bookkeeping(glue_node *n); /* the enumeration part of the Darwin flow for a Discover */
void glue_api_mapping_charge(glue_node *n);
void glue_api_mapping_reset_inactive(glue_node *n);
void glue_api_mapping_set_last_ts(glue_node *n, uint64_t ts);
void glue_api_session_set(glue_node *n, int state, uint64_t last_ts);
void glue_api_mapping_set(glue_node *n, int state, uint64_t last_ts);
int  glue_api_classify(glue_node *n, const void *frame, size_t len);

/* constructor fault probes (C18): returns 0 = returned NULL, 1 = returned a
 * usable object (then destroyed again); a crash is the violation. */
int glue_ctor_probe(int which); /* 0 mapping 1 enumeration 2 session 3 table */

/* source-drift fingerprint of what glue.c transcribes (filled by the build) */
const char *glue_transcription_note(void);

/* ---- provided by the simulator, called from glue.c ---- */
void sim_periodic_hello(void *iface_ctx, const void *frame, size_t len); /* Darwin sendHelloMessage -> sendto */
void sim_probe(int code);                                                 /* reach probes */
uint32_t sim_iface_mtu(void *iface_ctx);
int  sim_iface_is_wifi(void *iface_ctx);
void sim_glue_phase(int phase); /* 1 = inside automata_tick, 0 = outside */

enum {
    PROBE_DARWIN_TABLE_CLEARED_ON_QUIESCENT = 1,
    PROBE_DARWIN_DISCOVER_ADD_FAILED = 2,
    PROBE_MAX = 64
};

#ifdef __cplusplus
}
#endif
#endif
