// gen.cc -- seeded plan generators, one profile per property (swarm style: sizes, mixes and fault kinds vary per run).
#include "sim.hh"


static inline bool disc_tos_ok(int t) { return t == 0 || t == 1; }
static uint32_t pick_mtu(Rng &r) {
    if (r.chance(0.6)) return (uint32_t)r.pickl({576, 577, 1280, 1500, 1500, 1500, 1501, 4096, 9000, 9216});
    if (r.chance(0.3)) { static const int64_t R[] = {1024, 1536, 2048, 3072, 4096, 8192, 1492, 1480, 2000, 2304, 7981, 9180}; return (uint32_t)(R[r.below(12)] + r.pickl({0, 0, 0, -1, 1})); } // round values and well-known link sizes, each with its neighbours
    return (uint32_t)r.range(576, 9216);
}
static NodeCfg rnd_node(Rng &r, std::initializer_list<int64_t> glues) {
    NodeCfg n;
    n.glue = (int)r.pickl(glues);
    n.mtu = pick_mtu(r);
    n.attr_seed = r.next() | 1;
    n.wifi = r.chance(0.4);
    n.rxfill = (uint8_t)r.pickl({0, 0xFF, 0xA5, 0x01});
    n.proc_us = r.chance(0.3) ? (uint32_t)r.range(0, 50) : 0;
    n.tick_jitter = r.chance(0.5) ? (uint32_t)r.range(0, 30) : 0;
    return n;
}
static Plan base_plan(const std::string &prop, uint64_t seed, Rng &r) {
    Plan p;
    p.prop = prop; p.seed = seed;
    p.t0 = (uint64_t)r.range(1, 5000) * 1000 + (r.chance(0.5) ? 0 : (uint64_t)r.range(0, 999));
    if (r.chance(0.08)) { // an uptime just below a value at which a narrowed millisecond or second counter wraps (49.7 days, 24.8 days, 65.5 s, 136 years)
        static const uint64_t W[] = {1ull << 32, 1ull << 31, 1ull << 16, (1ull << 32) * 1000, 3ull << 32, (1ull << 31) * 1000};
        p.t0 = W[r.below(6)] - (uint64_t)r.range(0, r.chance(0.5) ? 300 : 3000);
    }
    if (r.chance(0.03)) p.t0 = (uint64_t)r.pickl({0, 1, 2, 99, 100, 500, 900, 999}); // the daemon starts within the first second of the monotonic clock (embedded boot)
    p.mac_seed = r.next();
    p.memfill = (uint8_t)r.pickl({0x00, 0xFF, 0xA5, 0xFE, 0xFE});
    p.memfill_seed = r.next();
    p.latency = (uint32_t)r.range(1, 5);
    return p;
}
static Op mk(int kind, uint32_t dt, std::initializer_list<int64_t> a) {
    Op o;
    o.kind = kind; o.dt = dt;
    int i = 0;
    for (auto v : a) if (i < 8) o.a[i++] = v;
    return o;
}
static uint16_t rnd_gen(Rng &r) { return r.chance(0.4) ? (uint16_t)r.pickl({0, 1, 0xFF, 0x100, 0x7FFF, 0x8000, 0xFFFF, 0x1234, 0x3412}) : (uint16_t)r.next(); }
static uint16_t rnd_seq(Rng &r) { return r.chance(0.5) ? (uint16_t)r.pickl({1, 2, 0xFF, 0x100, 0xFFFF, 0x8000}) : (uint16_t)r.range(1, 0xFFFF); }
// time differences around the widths a narrowed type would wrap at (seconds or milliseconds)
static int64_t big_jump(Rng &r) { static const int K[] = {15, 16, 31, 32}; int64_t b = (int64_t)1 << K[r.below(4)]; return b * r.range(1, 2) + r.range(-2, 2); }
static uint32_t rnd_dt(Rng &r) { return r.chance(0.7) ? (uint32_t)r.range(0, 40) : (uint32_t)r.range(0, 1200); }
// Ethernet source of a request: the sender itself (-1), another station acting as bridge, or - rarely - the first interface's own
// address (a reflecting switch / our own bridge port) or a one-byte neighbour of it
static int rnd_bridge(Rng &r, int sid) {
    if (!r.chance(0.25)) return -1;
    if (r.chance(0.08)) return r.chance(0.5) ? 100 : 300 + (int)r.below(6);
    return (sid + 1 + (int)r.below(3)) % 6;
}

// the link's MTU changes in place (same interface context, the daemon re-sizes its receive buffer)
static Op op_mtu_change(Rng &r, int node, uint32_t dt) { return mk(OP_ATTR, dt, {node, 0, 0x40000, (int64_t)pick_mtu(r)}); }
// an attribute seed whose icon (or friendly name) is a non-zero exact multiple of the link's large-property payload (MTU - 34), or one
// byte off: the sizes at which "bytes remain beyond this chunk" flips
static uint64_t aligned_attr_seed(Rng &r, uint32_t mtu, bool wifi, uint64_t fallback) {
    size_t P = mtu - 34;
    for (int t = 0; t < 400; t++) {
        uint64_t s = r.next() | 1;
        Attr a = make_attr(s, wifi);
        if (!a.icon_avail || a.icon.empty()) continue;
        size_t rem = a.icon.size() % P;
        if (rem == 0 || (t > 300 && (rem == 1 || rem == P - 1))) return s;
    }
    return fallback;
}
static Op op_discover(Rng &r, int sid, int tos) {
    return mk(OP_DISCOVER, rnd_dt(r), {sid, rnd_bridge(r, sid), tos, rnd_gen(r), r.chance(0.2) ? 0 : (int64_t)rnd_seq(r), 0, 0, 0});
}
static Bytes rnd_descs(Rng &r, size_t n, const Mac *src = nullptr, const Mac *dst = nullptr) {
    Bytes b;
    for (size_t i = 0; i < n; i++) {
        b.push_back((uint8_t)r.below(2));
        b.push_back(r.chance(0.6) ? 0 : (uint8_t)r.pickl({1, 2, 10, 255, 100}));
        for (int k = 0; k < 6; k++) b.push_back(src ? src->a[k] : (uint8_t)r.next());
        for (int k = 0; k < 6; k++) b.push_back(dst ? dst->a[k] : (uint8_t)r.next());
    }
    return b;
}
static void add_net_faults(Rng &r, Op &o, double rate, uint32_t mtu) {
    if (!r.chance(rate)) return;
    int n = 1 + (int)r.below(2);
    for (int i = 0; i < n; i++) {
        Fault f;
        switch (r.below(9)) {
        case 0: f.kind = F_DROP; f.a = 0; break;
        case 1: f.kind = F_DUP; f.a = r.range(1, 3); break;
        case 2: f.kind = F_DELAY; f.a = r.range(1, 300); break;
        case 3: f.kind = F_TRUNC; f.a = r.chance(0.5) ? r.pickl({0, 1, 13, 14, 17, 18, 31, 32, 33, 34, 35, 36, 37, 46}) : r.range(0, 200); break;
        case 4: f.kind = F_PAD; f.a = r.chance(0.5) ? (int64_t)mtu + r.range(-1, 1) : r.range(32, (int64_t)mtu + 64); f.b = r.next() & 0xFF; break;
        case 5: f.kind = F_SETB; f.a = r.chance(0.7) ? r.range(12, 40) : r.range(0, 200); f.b = r.next() & 0xFF; break;
        case 6: f.kind = F_XORB; f.a = r.range(0, 60); f.b = 1 << r.below(8); break;
        default: f.kind = F_COUNT; f.a = r.pickl({0, 1, 2, 0x7FFF, 0x8000, 0xFFFF, (int64_t)(mtu - 34) / 14, (int64_t)(mtu - 34) / 14 + 1, (int64_t)(mtu - 36) / 6, (int64_t)(mtu - 36) / 6 + 1}); break;
        }
        o.f.push_back(f);
    }
}

// a random LAN operation; `w` are weights per kind
struct Mix { int discover = 10, emit = 4, probe = 4, flood = 1, query = 4, qlt = 3, fetch = 1, reset = 3, charge = 1, hello = 3, raw = 1, stray = 2, tick = 1, stall = 1, attr = 0, partition = 0; };
static Op rnd_lan_op(Rng &r, const Plan &p, const Mix &m, int nstations, int mapper_hint) {
    int tot = m.discover + m.emit + m.probe + m.flood + m.query + m.qlt + m.fetch + m.reset + m.charge + m.hello + m.raw + m.stray + m.tick + m.stall + m.attr + m.partition;
    int x = (int)r.below((uint64_t)tot);
    int nn = (int)p.nodes.size();
    int node = (int)r.below((uint64_t)nn);
    uint32_t mtu = p.nodes[node].mtu;
    int sid = (mapper_hint >= 0 && r.chance(0.7)) ? mapper_hint : (int)r.below((uint64_t)nstations);
    int tos = r.chance(0.75) ? 0 : (r.chance(0.6) ? 1 : (int)r.pickl({2, 3, 0x80, 0xFF}));
    auto in = [&](int wgt) { if (x < wgt) return true; x -= wgt; return false; };
    if (in(m.discover)) return op_discover(r, sid, tos);
    if (in(m.emit)) {
        size_t n = r.chance(0.7) ? (size_t)r.range(1, 4) : (size_t)r.range(1, (mtu - 34) / 14);
        Op o = mk(OP_EMIT, rnd_dt(r), {sid, rnd_bridge(r, sid), node, rnd_seq(r), -1, tos == 1 ? 1 : 0});
        o.blob = rnd_descs(r, n);
        return o;
    }
    if (in(m.probe)) {
        int64_t es = r.chance(0.5) ? r.range(0, 5) : r.range(1000, 1400), rs = r.chance(0.6) ? es : r.range(1000, 1400);
        bool forus = r.chance(0.7);
        return mk(OP_PROBE, rnd_dt(r), {es, rs, r.chance(0.5) ? wire::W_PROBE : wire::W_TRAIN, forus ? 100 + node : r.range(2000, 2010), forus ? 100 + node : r.range(2000, 2010), tos == 1 ? 1 : 0, 0, 0});
    }
    if (in(m.flood)) return mk(OP_FLOOD, rnd_dt(r), {r.range(1, 120), r.range(3000, 3400), node, 0, r.chance(0.2) ? 1 : 0});
    if (in(m.query)) return mk(OP_QUERY, rnd_dt(r), {sid, rnd_bridge(r, sid), node, rnd_seq(r), r.range(0, 6)});
    if (in(m.qlt)) return mk(OP_QLT, rnd_dt(r), {sid, rnd_bridge(r, sid), node, r.chance(0.1) ? 0 : (int64_t)rnd_seq(r), r.chance(0.8) ? r.pickl({0x0E, 0x11, 0x13}) : r.range(0, 255),
                                               r.chance(0.5) ? r.pickl({0, 1, 100, 542, 1466, 0x7FFF, 0x8000, 0xFFFF}) : r.range(0, 0xFFFF), tos == 1 ? 1 : 0});
    if (in(m.fetch)) return mk(OP_FETCH, rnd_dt(r), {sid, rnd_bridge(r, sid), node, rnd_seq(r), r.pickl({0x0E, 0x11, 0x13}), 0, 80});
    if (in(m.reset)) return mk(OP_RESET, rnd_dt(r), {sid, rnd_bridge(r, sid), tos, r.chance(0.3) ? 1 : 0, node, 0});
    if (in(m.charge)) return mk(OP_CHARGE, rnd_dt(r), {sid, 0, node, rnd_seq(r)});
    if (in(m.hello)) return mk(OP_HELLO, rnd_dt(r), {r.range(4, 7), rnd_gen(r), tos == 1 ? 1 : 0, r.chance(0.7) ? 1 : r.range(2, 40), r.chance(0.5) ? 0 : r.range(1, 300), 0});
    if (in(m.raw)) {
        Op o = mk(OP_RAW, rnd_dt(r), {-1});
        size_t len = r.chance(0.3) ? (size_t)r.pickl({0, 1, 14, 31, 32, 33, 34, 36, 46}) : (r.chance(0.5) ? r.below(200) : r.below(mtu + 100));
        o.blob.resize(len);
        for (auto &c : o.blob) c = (uint8_t)r.next();
        if (len >= 18 && r.chance(0.7)) { o.blob[12] = 0x88; o.blob[13] = 0xD9; o.blob[14] = 1; o.blob[15] = (uint8_t)r.below(3); o.blob[17] = (uint8_t)r.below(14); }
        return o;
    }
    if (in(m.stray)) {
        Op o = mk(OP_STRAY, rnd_dt(r), {sid, r.chance(0.5) ? r.range(0, 3) : r.range(0, 255), r.chance(0.5) ? r.range(0, 13) : r.range(0, 255), r.chance(0.5) ? node : -1, r.chance(0.2) ? 0 : (int64_t)rnd_seq(r), 0, 0});
        size_t len = r.below(40);
        o.blob.resize(len);
        for (auto &c : o.blob) c = (uint8_t)r.next();
        return o;
    }
    if (in(m.tick)) return mk(OP_TICK, rnd_dt(r), {node});
    if (in(m.stall)) return mk(OP_STALL, rnd_dt(r), {r.chance(0.5) ? node : -1, r.chance(0.7) ? r.range(1, 900) : r.range(1000, 120000)});
    if (in(m.attr)) return r.chance(0.25) ? op_mtu_change(r, node, rnd_dt(r)) : mk(OP_ATTR, rnd_dt(r), {node, (int64_t)(r.next() >> 1), (int64_t)(r.next() & 0x1FFFF & ~(uint64_t)G_MAC)});
    return mk(OP_PARTITION, rnd_dt(r), {r.chance(0.5) ? node : -1, r.chance(0.5) ? r.range(1000, 35000) : r.range(35000, 120000)});
}

// ------------------------------------------------------------------ per-property generators
static Plan gen_C01(uint64_t seed, Rng &r) {
    Plan p = base_plan("C01", seed, r);
    int nn = 1 + (int)r.below(3);
    for (int i = 0; i < nn; i++) {
        NodeCfg n = rnd_node(r, {GLUE_BARE, GLUE_LEGACY, GLUE_DARWIN, GLUE_DARWIN});
        n.side_esp32 = r.chance(0.7); n.side_classifier = true;
        if (r.chance(0.15)) n.failmask = (uint32_t)r.next() & G_ALL;
        if (i == 0 && r.chance(0.03)) n.mtu = (uint32_t)r.pickl({16384, 32767, 32768, 32803, 32804, 40000, 65535, 65536}); // beyond the stated MTU range: here only "no crash, no sanitizer report" is judged
        p.nodes.push_back(n);
    }
    p.family = (int)r.below(4);
    Mix m;
    double frate = 0.5;
    if (p.family == 0) { m = Mix(); m.raw = 40; m.stray = 20; frate = 0.2; }                 // noise
    else if (p.family == 1) { m.raw = 3; m.stray = 6; frate = 0.8; }                           // mutated valid sessions
    else if (p.family == 2) { m.emit = 20; m.discover = 20; m.qlt = 10; m.query = 6; frate = 0.9; } // counters
    else { m.stall = 4; m.tick = 6; m.partition = 1; m.attr = 2; frate = 0.4; }
    if (p.nodes[0].mtu > 9216) { m.fetch = 10; m.qlt = 10; frate = 0.1; p.nodes.resize(1); }
    int nops = (int)r.range(5, p.family == 0 ? 120 : 60);
    int mapper = (int)r.below(3);
    for (int i = 0; i < nops; i++) {
        Op o = rnd_lan_op(r, p, m, 6, mapper);
        add_net_faults(r, o, frate, p.nodes[0].mtu);
        if ((o.kind == OP_DISCOVER || o.kind == OP_EMIT) && r.chance(0.08)) { // filled to (about) the MTU, counter over-declared, own address cut off by the end of the frame
            int node = (int)r.below(p.nodes.size());
            uint32_t mtu = p.nodes[(size_t)node].mtu;
            o.f.clear();
            o.f.push_back({F_PAD, (int64_t)mtu + r.pickl({0, 0, 0, -1, -2, 1, 7}), (int64_t)(r.next() & 0xFF)});
            o.f.push_back({F_COUNT, r.pickl({0xFFFF, 0x7FFF, (int64_t)(mtu - 36) / 6 + 1, (int64_t)(mtu - 34) / 14 + 1}), 0});
            o.f.push_back({F_TAILMAC, r.range(1, 6), node});
        }
        if (p.family == 2 && (o.kind == OP_EMIT || o.kind == OP_DISCOVER || o.kind == OP_QLT) && r.chance(0.6)) {
            uint32_t mtu = p.nodes[r.below(p.nodes.size())].mtu;
            Fault f; f.kind = F_COUNT;
            f.a = r.pickl({0, 1, (int64_t)(mtu - 34) / 14, (int64_t)(mtu - 34) / 14 + 1, (int64_t)(mtu - 36) / 6, (int64_t)(mtu - 36) / 6 + 1, 0xFFFF, 0x7FFF, 0x8000, 300, 1000});
            o.f.push_back(f);
        }
        p.ops.push_back(o);
    }
    return p;
}

static Plan gen_C02(uint64_t seed, Rng &r) {
    Plan p = base_plan("C02", seed, r);
    int nn = 1 + (int)r.below(2);
    for (int i = 0; i < nn; i++) {
        NodeCfg n = rnd_node(r, {GLUE_BARE, GLUE_LEGACY, GLUE_DARWIN});
        if (r.chance(0.1)) n.failmask = (uint32_t)r.next() & G_ALL;
        p.nodes.push_back(n);
    }
    p.family = (int)r.below(3);
    if (r.chance(0.03)) { // the record of observations filled to (and past) the bound C19 allows it, then drained by Queries to its end
        p.family = 6;
        p.nodes.resize(1);
        if (r.chance(0.7)) p.nodes[0].mtu = (uint32_t)r.pickl({1500, 1500, 4096, 9216});
        int mp = (int)r.below(3);
        p.ops.push_back(mk(OP_DISCOVER, 5, {mp, -1, 0, rnd_gen(r), rnd_seq(r), 0, 0, 0}));
        int64_t total = r.pickl({1023, 1024, 1025, 1026, 1030, 1100, 511, 512, 513, 2047, 2048, 2049}), base = 30000;
        while (total > 0) { int64_t c = std::min(total, r.range(200, 1100)); p.ops.push_back(mk(OP_FLOOD, (uint32_t)r.range(0, 20), {c, base, 0, 0, 0})); base += c; total -= c; }
        p.ops.push_back(mk(OP_QUERY, 20, {mp, -1, 0, rnd_seq(r), 120}));
        p.ops.push_back(mk(OP_FLOOD, 400, {r.range(1, 5), base, 0, 0, 0}));
        p.ops.push_back(mk(OP_QUERY, 20, {mp, -1, 0, rnd_seq(r), 5}));
        p.tail_ms = 600;
        return p;
    }
    Mix m;
    double frate = 0.1;
    if (p.family == 1) { m.raw = 8; m.stray = 10; frate = 0.5; }
    if (p.family == 2) { m.flood = 4; m.query = 8; m.fetch = 8; m.qlt = 6; if (r.chance(0.6)) { p.nodes[0].mtu = (uint32_t)r.pickl({576, 1280, 1500, 9000}); if (r.chance(0.3)) p.nodes[0].attr_seed = aligned_attr_seed(r, p.nodes[0].mtu, p.nodes[0].wifi, p.nodes[0].attr_seed); } } // the icon sizes of the attribute generator cluster around multiples of these links' payload sizes
    int nops = (int)r.range(5, 50);
    int mapper = (int)r.below(3);
    bool platform_faults = r.chance(0.3); // a refused transmit or a failed allocation must not make any LATER frame malformed
    for (int i = 0; i < nops; i++) {
        Op o = rnd_lan_op(r, p, m, 6, mapper);
        add_net_faults(r, o, frate, p.nodes[0].mtu);
        if (platform_faults && r.chance(0.12)) { Fault f; f.kind = r.chance(0.6) ? F_SENDFAIL : F_ALLOCFAIL; f.a = f.kind == F_SENDFAIL ? r.pickl({1, 2, 3, 0xFFFF}) : r.range(1, 3); f.b = 1; o.f.push_back(f); }
        p.ops.push_back(o);
    }
    return p;
}

static Plan gen_C03(uint64_t seed, Rng &r) {
    Plan p = base_plan("C03", seed, r);
    int nn = 1 + (int)r.below(2);
    if (r.chance(0.03)) { // a host with many interfaces (or many re-created interface contexts) in one process
        nn = (int)r.pickl({8, 9, 16, 17, 24, 32, 33});
        for (int i = 0; i < nn; i++) p.nodes.push_back(rnd_node(r, {GLUE_BARE}));
        p.family = 5;
        int nd = (int)r.range(1, 4);
        for (int i = 0; i < nd; i++) p.ops.push_back(op_discover(r, (int)r.below(3), (int)r.below(2)));
        p.tail_ms = 100;
        return p;
    }
    for (int i = 0; i < nn; i++) p.nodes.push_back(rnd_node(r, {GLUE_BARE, GLUE_LEGACY, GLUE_DARWIN}));
    if (r.chance(0.05)) { if (nn < 2) { p.nodes.push_back(rnd_node(r, {GLUE_BARE})); nn = 2; } p.nodes[1].ctx_alias = (int)r.range(1, 3); p.isolate = true; } // context pointers a multiple of 4 GiB apart (separate segments, so that each interface has its own mapper)
    Mix m;
    m.discover = 30; m.hello = 10; m.reset = 8; m.emit = 2; m.query = 2; m.qlt = 2; m.probe = 2; m.flood = 0; m.raw = 0; m.stray = 3; m.stall = 0;
    int nops = (int)r.range(3, 40);
    int mapper = (int)r.below(4);
    for (int i = 0; i < nops; i++) {
        if (r.chance(0.1)) mapper = (int)r.below(4);
        Op o = rnd_lan_op(r, p, m, 4, mapper);
        if (r.chance(0.1)) { Fault f; f.kind = r.chance(0.5) ? F_DUP : F_DELAY; f.a = r.range(1, 50); o.f.push_back(f); }
        p.ops.push_back(o);
    }
    return p;
}

static Plan gen_C04(uint64_t seed, Rng &r) {
    Plan p = base_plan("C04", seed, r);
    int nn = 1 + (int)r.below(2);
    p.family = (int)r.below(3);
    for (int i = 0; i < nn; i++) {
        NodeCfg n = rnd_node(r, {GLUE_BARE, GLUE_DARWIN, GLUE_DARWIN});
        n.wifi = r.chance(0.5);
        if (p.family == 1) n.failmask = (uint32_t)r.next() & (G_ALL & ~G_MTU) & (r.chance(0.5) ? (uint32_t)r.next() : 0xFFFFFFFFu);
        if (i == 0 && r.chance(0.06)) n.null_ctx = true; // the port's handle for this interface is the NULL pointer (a handle is opaque: the attributes are what the getters say)
        p.nodes.push_back(n);
    }
    int nops = (int)r.range(2, 25);
    int mapper = 0;
    for (int i = 0; i < nops; i++) {
        int x = (int)r.below(10);
        Op o;
        if (x < 5) { o = op_discover(r, mapper, r.chance(0.7) ? 0 : 1); if (r.chance(0.5)) { o.a[5] = 1; o.a[6] = r.range(0, 5); o.a[7] = -1; } if (r.chance(0.3)) o.dt = (uint32_t)r.range(500, 3000); }
        else if (x < 7) o = mk(OP_ATTR, rnd_dt(r), {(int64_t)r.below((uint64_t)nn), (int64_t)(r.next() >> 1), (int64_t)(r.next() & 0x1FFFF & ~(uint64_t)G_MAC)});
        else if (x < 8) o = mk(OP_RESET, rnd_dt(r), {mapper, -1, 0, 0, 0, 0});
        else if (x < 9) o = mk(OP_STALL, 0, {-1, r.range(100, 2500)});
        else o = mk(OP_HELLO, rnd_dt(r), {5, rnd_gen(r), 0, 1, 0, 0});
        if (p.family == 2 && o.kind == OP_DISCOVER && r.chance(0.4)) { Fault f; f.kind = F_GETFAIL; f.a = (int64_t)(r.next() & (G_ALL & ~G_MTU)); o.f.push_back(f); }
        p.ops.push_back(o);
    }
    p.tail_ms = (uint32_t)r.range(200, 4000);
    return p;
}

static Plan gen_C05(uint64_t seed, Rng &r, uint64_t index) {
    Plan p = base_plan("C05", seed, r);
    if (index < 2 * 65536) { // stratified single-step sweep over (state, ToS, opcode)
        p.family = 9;
        NodeCfg n = rnd_node(r, {GLUE_BARE});
        p.nodes.push_back(n);
        bool active = index >= 65536;
        int tos = (int)((index >> 8) & 0xFF), opc = (int)(index & 0xFF);
        if (active) p.ops.push_back(mk(OP_DISCOVER, 5, {0, -1, 0, 0x1111, 7, 0, 0, 0}));
        Op s = mk(OP_STRAY, 30, {1, tos, opc, r.chance(0.5) ? 0 : -1, 9, 0, 0});
        s.blob = {0x22, 0x22, 0x00, 0x00, 0, 0, 0, 0}; // generation + empty station list / harmless payload
        p.ops.push_back(s);
        p.ops.push_back(mk(OP_DISCOVER, 30, {active ? 0 : 2, -1, (int64_t)r.below(2), 0x3333, 11, 0, 0, 0}));
        p.ops.push_back(mk(OP_DISCOVER, 30, {active ? 2 : 3, -1, 0, 0x4444, 12, 0, 0, 0}));
        p.tail_ms = 100;
        return p;
    }
    int nn = 1 + (int)r.below(2);
    for (int i = 0; i < nn; i++) p.nodes.push_back(rnd_node(r, {GLUE_BARE, GLUE_BARE, GLUE_LEGACY, GLUE_DARWIN}));
    if (r.chance(0.03)) { // the observation record is filled to (and past) its bound while a mapper is active: no amount of Probe traffic releases the mapper
        p.family = 10;
        p.nodes.resize(1);
        p.nodes[0].proc_us = 0;
        uint16_t g = rnd_gen(r);
        p.ops.push_back(mk(OP_DISCOVER, 5, {0, -1, 0, g, rnd_seq(r), 0, 0, 0}));
        p.ops.push_back(mk(OP_FLOOD, 5, {r.pickl({1022, 1023, 1024, 1025, 1026, 1100, 2050}), 50000, 0, 0, 0}));
        int tail = (int)r.range(2, 6);
        for (int k = 0; k < tail; k++) p.ops.push_back(mk(OP_DISCOVER, (uint32_t)r.range(1, 20), {(int64_t)(k % 2 ? 0 : 1 + (int)r.below(2)), -1, (int64_t)r.below(2), k % 2 ? (int64_t)g : (int64_t)rnd_gen(r), rnd_seq(r), 0, 0, 0}));
        p.tail_ms = 100;
        return p;
    }
    if (r.chance(0.04)) { // one mapper keeps its session alive for a long time (N openers without a Reset), then a second station tries to take over
        p.family = 7;
        p.nodes.resize(1);
        int64_t N = r.chance(0.8) ? r.pickl({126, 127, 128, 129, 130, 254, 255, 256, 257, 258, 510, 511, 512, 513}) : r.range(100, 600);
        uint16_t g = rnd_gen(r);
        for (int64_t k = 0; k < N; k++) {
            Op o = mk(OP_DISCOVER, (uint32_t)r.range(1, 8), {0, -1, 0, g, (int64_t)((k % 65000) + 1), 0, 0, 0});
            p.ops.push_back(o);
            if (r.chance(0.01)) { Op e = mk(OP_EMIT, 2, {0, -1, 0, rnd_seq(r), -1, 0}); e.blob = rnd_descs(r, 1); p.ops.push_back(e); }
            if (r.chance(0.01)) p.ops.push_back(mk(OP_QLT, 2, {0, -1, 0, rnd_seq(r), 0x11, 0, 0}));
            if (k > 100 && r.chance(0.5)) p.ops.push_back(mk(OP_DISCOVER, 1, {1 + (int64_t)r.below(2), -1, (int64_t)r.below(2), rnd_gen(r), rnd_seq(r), 0, 0, 0})); // somebody else knocks: must stay unanswered, whenever
        }
        int tail = (int)r.range(2, 6);
        for (int k = 0; k < tail; k++) p.ops.push_back(mk(OP_DISCOVER, (uint32_t)r.range(1, 20), {(int64_t)(k % 2 ? 0 : 1 + (int)r.below(2)), -1, (int64_t)r.below(2), rnd_gen(r), rnd_seq(r), 0, 0, 0}));
        p.tail_ms = 100;
        return p;
    }
    if (r.chance(0.02)) { // one interface holds a mapper while another is re-created again and again; each new instance is asked by a different station first
        p.family = 8;
        p.nodes.resize(1);
        p.nodes.push_back(rnd_node(r, {GLUE_BARE}));
        for (auto &n : p.nodes) n.glue = GLUE_BARE;
        { Op o = mk(OP_DISCOVER, 5, {0, -1, 0, rnd_gen(r), rnd_seq(r), 2, 0, -1}); o.only = 0; p.ops.push_back(o); }
        int64_t K = r.pickl({63, 64, 65, 127, 128, 254, 255, 256, 257, 300});
        for (int64_t k = 0; k < K; k++) {
            p.ops.push_back(mk(OP_ATTR, (uint32_t)r.range(1, 3), {1, 0, 0x80000, 0}));
            Op o = mk(OP_DISCOVER, 1, {1 + (int64_t)r.below(3), -1, (int64_t)r.below(2), rnd_gen(r), rnd_seq(r), 2, 0, -1}); o.only = 1; p.ops.push_back(o);
        }
        { Op o = mk(OP_DISCOVER, 5, {0, -1, 0, rnd_gen(r), rnd_seq(r), 2, 0, -1}); o.only = 0; p.ops.push_back(o); }
        { Op o = mk(OP_DISCOVER, 5, {2, -1, 0, rnd_gen(r), rnd_seq(r), 2, 0, -1}); o.only = 0; p.ops.push_back(o); }
        p.tail_ms = 100;
        return p;
    }
    int nst = (int)r.range(3, 5);
    int nops = (int)r.range(3, 45);
    bool platform_faults = r.chance(0.25);
    int active = -1; // generator-side tracking for the domain restriction (commands only from the active mapper or while none is active)
    for (int i = 0; i < nops; i++) {
        int sid = (int)r.below((uint64_t)nst);
        int tos = r.chance(0.6) ? 0 : (r.chance(0.5) ? 1 : (r.chance(0.6) ? 2 : (int)r.below(256)));
        int node = (int)r.below((uint64_t)nn);
        Op o;
        switch (r.below(10)) {
        case 0: case 1: case 2: case 3: o = op_discover(r, sid, tos); if (disc_tos_ok(tos) && active < 0) active = sid;
            if (r.chance(0.04)) { o.a[0] = r.chance(0.6) ? 100 + node : 300 + 6 * node + (int64_t)r.below(6); o.a[5] = 2; active = -1; } // a station that carries our own address (or a neighbour of it) as real source is a station like any other
            break;
        case 4: o = mk(OP_RESET, rnd_dt(r), {sid, rnd_bridge(r, sid), tos, r.chance(0.3) ? 1 : 0, node, 0}); if (tos <= 1) active = -1; break;
        case 5: o = mk(OP_HELLO, rnd_dt(r), {sid, rnd_gen(r), tos <= 1 ? tos : 0, 1, 0, 0}); break;
        case 6: o = mk(OP_PROBE, rnd_dt(r), {sid, sid, r.chance(0.5) ? wire::W_PROBE : wire::W_TRAIN, 100 + node, 100 + node, 0, 0, 0}); break;
        case 7: { int cs = active >= 0 ? active : sid; o = mk(OP_EMIT, rnd_dt(r), {cs, -1, node, rnd_seq(r), -1, 0}); o.blob = rnd_descs(r, (size_t)r.range(1, 3)); if (active < 0) active = -2; break; }
        case 8: { int cs = active >= 0 ? active : sid; o = mk(OP_QUERY, rnd_dt(r), {cs, -1, node, rnd_seq(r), 0}); if (active < 0) active = -2; break; }
        default: {
            if (r.chance(0.5)) {
                bool zero = r.chance(0.3); // sequence number 0: must be ignored, so any station may send it at any time
                int cs = (active >= 0 && !zero) ? active : sid;
                o = mk(OP_QLT, rnd_dt(r), {cs, -1, node, zero ? 0 : (int64_t)rnd_seq(r), r.pickl({0x11, 0x0E, 0x13}), 0, (int64_t)r.below(2)});
                if (active < 0 && !zero) active = -2;
            }
            else { o = mk(OP_STRAY, rnd_dt(r), {sid, r.chance(0.6) ? 2 : (int64_t)r.below(256), r.chance(0.6) ? r.range(0, 12) : r.range(0, 255), r.chance(0.5) ? node : -1, rnd_seq(r), 0, 0}); o.blob = {0x12, 0x34, 0, 0}; }
        }
        }
        if (active == -2) active = -1; // unknown who holds the role now: only Discover/Reset frames until the model is certain again (monitor keeps the set)
        if (r.chance(0.05)) { Fault f; f.kind = r.chance(0.5) ? F_DUP : F_DELAY; f.a = r.range(1, 30); o.f.push_back(f); }
        if (platform_faults && r.chance(0.12)) { Fault f; f.kind = r.chance(0.6) ? F_ALLOCFAIL : F_SENDFAIL; f.a = f.kind == F_ALLOCFAIL ? r.range(1, 3) : r.pickl({1, 2, 0xFFFF}); f.b = r.chance(0.7) ? 1 : 99; o.f.push_back(f); } // a platform fault while a request is handled must not move the role
        p.ops.push_back(o);
    }
    return p;
}

static Plan gen_C06(uint64_t seed, Rng &r) {
    Plan p = base_plan("C06", seed, r);
    NodeCfg n = rnd_node(r, {GLUE_BARE, GLUE_LEGACY, GLUE_DARWIN});
    if (r.chance(0.1)) n.mtu = r.chance(0.4) ? (uint32_t)r.pickl({575, 574, 562, 561, 500, 400}) : (uint32_t)r.range(400, 575);
    else if (r.chance(0.04)) n.mtu = (uint32_t)r.pickl({16384, 32767, 32768, 32808, 65520, 65535, 65536}); // loopback, veth, IPoIB: the count field and 16-bit offsets get near their ends // C06 holds for every MTU: links smaller than the 576 the other statements start at
    p.nodes.push_back(n);
    if (r.chance(0.3)) p.nodes.push_back(rnd_node(r, {GLUE_BARE}));
    int mapper = (int)r.below(3);
    int br = rnd_bridge(r, mapper);
    p.ops.push_back(mk(OP_DISCOVER, 5, {mapper, br, 0, rnd_gen(r), rnd_seq(r), 0, 0, 0}));
    Mix m;
    m.raw = 0; m.stray = 1; m.reset = 0; m.discover = 2; m.emit = 0; m.stall = 0; m.query = 2;
    int pre = (int)r.below(6);
    for (int i = 0; i < pre; i++) p.ops.push_back(rnd_lan_op(r, p, m, 3, mapper));
    // prefix ops may have been Query from a stranger: re-establish the mapper deterministically
    p.ops.push_back(mk(OP_RESET, 20, {mapper, -1, 0, 0, 0, 0}));
    p.ops.push_back(mk(OP_DISCOVER, 20, {mapper, br, 0, rnd_gen(r), rnd_seq(r), 0, 0, 0}));
    int nem = (int)r.range(1, 4);
    size_t maxfit = (n.mtu - 34) / 14;
    for (int e = 0; e < nem; e++) {
        size_t cnt;
        switch (r.below(5)) { case 0: cnt = 1; break; case 1: cnt = (size_t)r.range(2, 3); break; case 2: cnt = maxfit; break; case 3: cnt = maxfit - 1; break; default: cnt = (size_t)r.range(1, (int64_t)maxfit); break; }
        Op o = mk(OP_EMIT, (uint32_t)r.range(20, 400), {mapper, br, 0, rnd_seq(r), -1, 0});
        o.blob = rnd_descs(r, cnt);
        p.family = 0;
        if (r.chance(0.35)) { // over-declared
            p.family = 1;
            size_t carried = r.chance(0.5) ? cnt : (size_t)r.range(1, 4);
            o.blob.resize(carried * 14);
            o.a[4] = r.pickl({(int64_t)carried + 1, (int64_t)carried * 2, 0x7FFF, 0xFFFF, (int64_t)maxfit + 1, (int64_t)maxfit});
        }
        if (nem > 1 && e + 1 < nem && r.chance(0.15)) { // a transmit or an allocation fails while this Emit is executed (the last frame, the first, any): the Emits that follow are ordinary Emits
            Fault f;
            if (r.chance(0.5)) { f.kind = F_SENDFAIL; f.a = r.chance(0.5) ? (int64_t)1 << std::min<size_t>(cnt - 1, 62) : (r.chance(0.5) ? 1 : (int64_t)(r.next() >> 2)); }
            else { f.kind = F_ALLOCFAIL; f.a = r.chance(0.5) ? (int64_t)cnt : r.range(1, (int64_t)cnt + 1); f.b = 1; }
            o.f.push_back(f);
        }
        p.ops.push_back(o);
        if (r.chance(0.3)) p.ops.push_back(rnd_lan_op(r, p, m, 3, mapper));
    }
    if (r.chance(0.08) && p.nodes[0].mtu >= 576 && p.nodes[0].mtu <= 9216) { // the link's MTU changes after the session was opened; then Emits sized for the new link, also over-declared
        p.family = 4;
        uint32_t m2 = pick_mtu(r);
        p.ops.push_back(mk(OP_ATTR, 20, {0, 0, 0x40000, (int64_t)m2}));
        size_t fit2 = (m2 - 34) / 14;
        for (int e = 0; e < 2; e++) {
            size_t cnt = e == 0 ? fit2 : (size_t)r.range(1, (int64_t)fit2);
            Op o = mk(OP_EMIT, (uint32_t)r.range(20, 200), {mapper, br, 0, rnd_seq(r), -1, 0});
            o.blob = rnd_descs(r, cnt);
            for (size_t d = 0; d < cnt; d++) if (cnt > 40) o.blob[d * 14 + 1] = 0;
            if (e == 1 && r.chance(0.6)) { o.blob.resize(std::min<size_t>(cnt, 3) * 14); o.a[4] = r.pickl({0xFFFF, 0x7FFF, (int64_t)fit2 + 1}); }
            p.ops.push_back(o);
        }
    }
    p.tail_ms = 200;
    return p;
}

static Plan gen_C07(uint64_t seed, Rng &r) {
    Plan p = base_plan("C07", seed, r);
    NodeCfg n = rnd_node(r, {GLUE_BARE, GLUE_LEGACY, GLUE_DARWIN});
    if (r.chance(0.5)) n.mtu = (uint32_t)r.pickl({576, 1500, 1500, 9216});
    p.nodes.push_back(n);
    int mapper = (int)r.below(3);
    int br = rnd_bridge(r, mapper);
    size_t cap = (n.mtu - 34) / 20;
    p.ops.push_back(mk(OP_DISCOVER, 5, {mapper, br, 0, rnd_gen(r), rnd_seq(r), 0, 0, 0}));
    if (r.chance(0.04)) { // the record filled to (or past) its bound; new observations arrive between the Queries that drain it
        p.family = 6;
        if (r.chance(0.7)) p.nodes[0].mtu = (uint32_t)r.pickl({1500, 1500, 4096, 9216});
        int64_t total = r.pickl({1023, 1024, 1025, 1026, 1100, 511, 512, 513}), b0 = 40000;
        p.ops.push_back(mk(OP_FLOOD, 5, {total, b0, 0, 0, 0}));
        int q = (int)r.range(1, 4);
        for (int k = 0; k < q; k++) {
            p.ops.push_back(mk(OP_QUERY, 20, {mapper, br, 0, rnd_seq(r), k == q - 1 ? 150 : r.range(0, 3)}));
            p.ops.push_back(mk(OP_FLOOD, (uint32_t)r.range(1, 40), {r.range(1, 3), b0 + total + 10 * k, 0, 0, 0}));
        }
        p.ops.push_back(mk(OP_QUERY, 400, {mapper, br, 0, rnd_seq(r), 150}));
        p.tail_ms = 800;
        return p;
    }
    int rounds = (int)r.range(1, 4);
    int64_t base = 3000;
    for (int rd = 0; rd < rounds; rd++) {
        size_t k;
        switch (r.below(9)) { case 0: k = 0; break; case 1: k = 1; break; case 2: k = cap - 1; break; case 3: k = cap; break; case 4: k = cap + 1; break; case 5: k = 2 * cap; break; case 6: k = 3 * cap + 1; break; case 7: k = (size_t)r.pickl({255, 256, 257, 127, 128, 129}); break; default: k = r.below(301); break; }
        if (k > 300) k = 300;
        // k distinct observations, in a few floods with other traffic interleaved
        size_t left = k;
        while (left > 0) {
            size_t chunk = r.chance(0.5) ? left : (size_t)r.range(1, (int64_t)left);
            p.ops.push_back(mk(OP_FLOOD, (uint32_t)r.range(0, 30), {(int64_t)chunk, base, 0, 0, 0}));
            base += (int64_t)chunk;
            left -= chunk;
            if (r.chance(0.3)) p.ops.push_back(mk(OP_FLOOD, 1, {r.range(1, 5), base - 1, 0, (base - 1) & 1 ? wire::W_PROBE : wire::W_TRAIN, 1})); // byte-identical duplicates
            if (r.chance(0.3)) p.ops.push_back(mk(OP_PROBE, 1, {r.range(1500, 1600), r.range(1500, 1600), wire::W_PROBE, r.range(2000, 2010), r.range(2000, 2010), 0, 0, 0})); // for another station
            if (r.chance(0.1)) p.ops.push_back(mk(OP_PROBE, 1, {r.chance(0.5) ? 100 : r.range(1660, 1690), r.chance(0.7) ? 100 : 300 + r.range(0, 5), r.chance(0.5) ? wire::W_PROBE : wire::W_TRAIN, 100, 100, 0, 0, 0})); // addressed to us, real (or Ethernet) source our own address or a neighbour of it: an observation like any other
            if (r.chance(0.2)) { int64_t tw = 300 + r.range(0, 5); p.ops.push_back(mk(OP_PROBE, 1, {r.range(1610, 1650), r.range(1610, 1650), wire::W_TRAIN, tw, tw, 0, 0, 0})); } // for a station whose address differs from ours in one byte
            if (r.chance(0.04)) p.ops.push_back(mk(OP_ATTR, 2, {0, (int64_t)(r.next() >> 1), 0x20000})); // the interface's hardware address changes mid-session
            if (r.chance(0.3) && k + 4 <= 300) { // distinct observations that share the Ethernet source (or the real source) with an earlier one
                int64_t shared = 1700 + r.range(0, 5);
                int extra = (int)r.range(2, 3);
                for (int q = 0; q < extra; q++) p.ops.push_back(mk(OP_PROBE, 1, {r.chance(0.5) ? shared : 1800 + base % 97 + q, r.chance(0.5) ? 1900 + base % 89 + q : shared, wire::W_PROBE, 100, 100, 0, 0, 0}));
            }
            if (r.chance(0.2)) p.ops.push_back(op_discover(r, mapper, 0));
            if (r.chance(0.15)) { Op e = mk(OP_EMIT, 5, {mapper, br, 0, rnd_seq(r), -1, 0}); e.blob = rnd_descs(r, 1); p.ops.push_back(e); }
            if (r.chance(0.15)) p.ops.push_back(mk(OP_QLT, 5, {mapper, br, 0, rnd_seq(r), 0x11, 0, 0}));
        }
        if (r.chance(0.15)) { p.ops.push_back(mk(OP_RESET, 10, {mapper, -1, 0, 0, 0, 0})); p.ops.push_back(mk(OP_DISCOVER, 10, {mapper, br, 0, rnd_gen(r), rnd_seq(r), 0, 0, 0})); }
        if (k > cap && r.chance(0.4)) { // one Query only (a partial drain), then the observation recorded last / first / in the middle arrives once more
            p.ops.push_back(mk(OP_QUERY, (uint32_t)r.range(5, 60), {mapper, br, 0, rnd_seq(r), 0}));
            int64_t again = r.chance(0.5) ? base - 1 : (r.chance(0.5) ? base - (int64_t)k : base - 1 - r.range(0, (int64_t)k - 1));
            p.ops.push_back(mk(OP_FLOOD, (uint32_t)r.range(1, 30), {1, again, 0, 0, 0}));
        }
        { Op q = mk(OP_QUERY, (uint32_t)r.range(5, 60), {mapper, br, 0, rnd_seq(r), 20}); if (r.chance(0.06)) { Fault f; f.kind = F_ALLOCFAIL; f.a = 1; f.b = r.chance(0.7) ? 1 : 2; q.f.push_back(f); } p.ops.push_back(q); } // the response buffer may not be available: no answer is fine, a lying one is not
        p.ops.push_back(mk(OP_QUERY, 400, {mapper, br, 0, rnd_seq(r), 20})); // a later Query: must not repeat or invent anything
        base += 50;
    }
    p.tail_ms = 500;
    return p;
}

static Plan gen_C08(uint64_t seed, Rng &r) {
    Plan p = base_plan("C08", seed, r);
    NodeCfg n = rnd_node(r, {GLUE_BARE, GLUE_LEGACY, GLUE_DARWIN});
    if (r.chance(0.6)) n.mtu = (uint32_t)r.pickl({576, 1280, 1500, 9000}); // the icon sizes of the attribute generator cluster around multiples of these payload sizes
    if (r.chance(0.15)) n.attr_seed = aligned_attr_seed(r, n.mtu, n.wifi, n.attr_seed);
    p.nodes.push_back(n);
    int mapper = (int)r.below(3);
    int br = rnd_bridge(r, mapper);
    p.ops.push_back(mk(OP_DISCOVER, 5, {mapper, br, 0, rnd_gen(r), rnd_seq(r), 0, 0, 0}));
    int nops = (int)r.range(2, 14);
    for (int i = 0; i < nops; i++) {
        int x = (int)r.below(13);
        int tos = r.chance(0.85) ? 0 : 1;
        size_t at = p.ops.size();
        if (x < 5) p.ops.push_back(mk(OP_FETCH, (uint32_t)r.range(5, 80), {mapper, br, 0, rnd_seq(r), r.pickl({0x0E, 0x0E, 0x11, 0x13}), tos, 90}));
        else if (x < 9) {
            int64_t off;
            switch (r.below(4)) { case 0: off = r.pickl({0, 1, 0x7FFF, 0x8000, 0xFFFF}); break; case 1: off = (int64_t)(n.mtu - 34) * r.range(1, 3) + r.range(-1, 1); break; case 2: off = r.range(0, 300); break; default: off = r.range(0, 0xFFFF); break; }
            p.ops.push_back(mk(OP_QLT, (uint32_t)r.range(5, 80), {mapper, br, 0, r.chance(0.1) ? 0 : (int64_t)rnd_seq(r), r.chance(0.8) ? r.pickl({0x0E, 0x11, 0x13}) : r.range(0, 255), off & 0xFFFF, tos}));
        } else if (x < 10) { p.ops.push_back(mk(OP_RESET, 10, {mapper, -1, r.chance(0.7) ? 0 : 1, 0, 0, 0})); }
        else if (x < 11) p.ops.push_back(r.chance(0.35) ? op_mtu_change(r, 0, 5) : mk(OP_ATTR, 5, {0, (int64_t)(r.next() >> 1), G_ICON | G_FNAME | G_HWID}));
        else if (r.chance(0.5)) { Op o = mk(OP_QLT, 5, {mapper, br, 0, rnd_seq(r), 0x0E, r.range(0, 2000), 0}); Fault f; f.kind = r.chance(0.5) ? F_DUP : F_DELAY; f.a = r.range(1, 20); o.f.push_back(f); p.ops.push_back(o); }
        else { // another station asks as well (its own sequence numbers), while the mapper's session is open
            int other = (mapper + 1 + (int)r.below(2)) % 4;
            if (r.chance(0.5)) p.ops.push_back(mk(OP_QLT, (uint32_t)r.range(5, 40), {other, rnd_bridge(r, other), 0, rnd_seq(r), r.pickl({0x0E, 0x11, 0x13}), r.chance(0.5) ? 0 : r.range(0, 3000), tos}));
            else p.ops.push_back(mk(OP_FETCH, (uint32_t)r.range(5, 40), {other, rnd_bridge(r, other), 0, rnd_seq(r), r.pickl({0x0E, 0x11, 0x13}), tos, 90}));
        }
        if (r.chance(0.03) && p.ops.size() > at) // the mapper comes back minutes or hours later (no Reset in between): the property is what the platform holds, however old the responder's copy
            p.ops[at].dt = (uint32_t)(1000 * (n.glue == GLUE_DARWIN ? r.pickl({59, 61, 120, 299, 300, 301, 305, 600}) : r.pickl({59, 61, 120, 299, 300, 301, 305, 600, 900, 3600, 86400})) + r.range(-5, 999));
    }
    p.tail_ms = 800;
    return p;
}

static void keepalive_ops(Rng &r, Plan &p, int node_count);
static Plan gen_C09(uint64_t seed, Rng &r) {
    Plan p = base_plan("C09", seed, r);
    p.twin = true;
    if (r.chance(0.12)) { // a long-lived session of the documented flow before the Reset (sessions expiring one by one), then a new session
        p.family = 1;
        NodeCfg n = rnd_node(r, {GLUE_DARWIN});
        p.nodes.push_back(n);
        keepalive_ops(r, p, 1);
        p.ops.push_back(mk(OP_RESET, (uint32_t)r.range(100, 4000), {(int64_t)r.below(3), -1, 0, r.chance(0.3) ? 1 : 0, 0, 0}));
        int nd = (int)r.range(1, 4);
        for (int i = 0; i < nd; i++) { Op o = p.ops[(size_t)r.below(3)]; if (o.kind != OP_DISCOVER) continue; o.dt = (uint32_t)r.range(1200, 5000); if (r.chance(0.5)) o.a[4] = rnd_seq(r); p.ops.push_back(o); }
        p.tail_ms = (uint32_t)r.range(2000, 6000);
        return p;
    }
    if (r.chance(0.05)) { // the observation record filled to (or past) its bound, then the Reset, then the new session asks for observations
        p.family = 2;
        p.nodes.push_back(rnd_node(r, {GLUE_BARE, GLUE_LEGACY, GLUE_DARWIN}));
        int mp = (int)r.below(3);
        p.ops.push_back(mk(OP_DISCOVER, 5, {mp, -1, 0, rnd_gen(r), rnd_seq(r), 0, 0, 0}));
        int64_t total = r.pickl({1022, 1023, 1024, 1025, 1100, 511, 512, 513, 255, 256, 257});
        p.ops.push_back(mk(OP_FLOOD, 5, {total, 50000, 0, 0, 0}));
        if (r.chance(0.3)) p.ops.push_back(mk(OP_QUERY, 20, {mp, -1, 0, rnd_seq(r), 0}));
        p.ops.push_back(mk(OP_RESET, 20, {mp, -1, 0, 0, 0, 0}));
        p.ops.push_back(mk(OP_DISCOVER, 20, {(mp + 1) % 3, -1, 0, rnd_gen(r), rnd_seq(r), 0, 0, 0}));
        p.ops.push_back(mk(OP_FLOOD, 5, {r.range(1, 3), r.chance(0.5) ? 50000 : 60000, 0, 0, 0}));
        p.ops.push_back(mk(OP_QUERY, 20, {(mp + 1) % 3, -1, 0, rnd_seq(r), 5}));
        p.tail_ms = 500;
        return p;
    }
    int nn = 1 + (int)r.below(2);
    for (int i = 0; i < nn; i++) p.nodes.push_back(rnd_node(r, {GLUE_BARE, GLUE_BARE, GLUE_LEGACY, GLUE_DARWIN}));
    Mix m;
    m.attr = 2; m.fetch = 3; m.flood = 3; m.raw = 2; m.stray = 3; m.reset = 1; m.stall = 0;
    int mapper = (int)r.below(3);
    int segs = (int)r.range(1, 3);
    for (int s = 0; s < segs; s++) {
        int nh = (int)r.range(0, 25);
        for (int i = 0; i < nh; i++) {
            Op o = rnd_lan_op(r, p, m, 5, mapper);
            add_net_faults(r, o, 0.15, p.nodes[0].mtu);
            if (s == 0 && r.chance(0.05)) { Fault f; f.kind = F_ALLOCFAIL; f.a = r.range(1, 3); o.f.push_back(f); } // internal faults only before the first Reset
            p.ops.push_back(o);
        }
        p.ops.push_back(mk(OP_RESET, rnd_dt(r), {(int64_t)r.below(4), rnd_bridge(r, 0), 0, r.chance(0.3) ? 1 : 0, 0, 0}));
        if (r.chance(0.5)) mapper = (int)r.below(4);
    }
    int nc = (int)r.range(1, 25);
    bool slow = r.chance(0.25); // a leisurely continuation: gaps of seconds to half a minute between frames, and time to tick afterwards
    for (int i = 0; i < nc; i++) {
        Op o = rnd_lan_op(r, p, m, 5, mapper);
        add_net_faults(r, o, 0.1, p.nodes[0].mtu);
        if (slow && r.chance(0.5)) o.dt = (uint32_t)(r.chance(0.5) ? r.range(1000, 6000) : r.range(6000, 35000));
        p.ops.push_back(o);
    }
    if (slow) p.tail_ms = (uint32_t)r.range(1500, 5000);
    return p;
}

static Plan gen_C10(uint64_t seed, Rng &r) {
    Plan p = base_plan("C10", seed, r);
    p.nodes.push_back(rnd_node(r, {GLUE_BARE, GLUE_LEGACY, GLUE_DARWIN}));
    p.nodes.push_back(rnd_node(r, {GLUE_BARE, GLUE_LEGACY, GLUE_DARWIN}));
    if (r.chance(0.2)) p.nodes.push_back(rnd_node(r, {GLUE_BARE}));
    int mapper = (int)r.below(3);
    p.ops.push_back(mk(OP_DISCOVER, 5, {mapper, rnd_bridge(r, mapper), 0, rnd_gen(r), rnd_seq(r), 0, 0, 0}));
    // node MACs are a function of the plan: rebuild them the way World::make_node does
    std::vector<Mac> nm;
    for (size_t i = 0; i < p.nodes.size(); i++) { Attr a = make_attr(p.nodes[i].attr_seed, p.nodes[i].wifi); a.mac.a[5] = (uint8_t)((a.mac.a[5] & 0xF0) | (i & 0x0F)); nm.push_back(a.mac); }
    int rounds = (int)r.range(1, 3);
    Mix m;
    m.raw = 0; m.stray = 2; m.reset = 0; m.discover = 1; m.emit = 0; m.query = 0; m.flood = 1; m.stall = 0; m.qlt = 2;
    if (r.chance(0.05)) { // several hundred frames from A pending at B when the Query arrives, B on a link whose QueryResp holds them all (or nearly)
        p.family = 3;
        p.nodes.resize(2);
        int A = (int)r.below(2), B = 1 - A;
        p.nodes[B].mtu = (uint32_t)r.pickl({5153, 5154, 5160, 9000, 9216, 9216});
        p.nodes[A].proc_us = 0; p.nodes[B].proc_us = 0;
        int64_t want = r.pickl({255, 256, 257, 300, 400, 511, 512, 513}), left = want;
        size_t per = (p.nodes[A].mtu - 34) / 14;
        while (left > 0) {
            size_t c = (size_t)std::min<int64_t>(left, (int64_t)per);
            Op e = mk(OP_EMIT, (uint32_t)r.range(20, 60), {mapper, -1, A, rnd_seq(r), -1, 0});
            e.blob = rnd_descs(r, c, nullptr, &nm[B]); // pairwise distinct spoofed sources
            for (size_t d = 0; d < c; d++) e.blob[d * 14 + 1] = 0; // no pauses
            p.ops.push_back(e);
            left -= (int64_t)c;
        }
        p.ops.push_back(mk(OP_QUERY, (uint32_t)r.range(300, 900), {mapper, -1, B, rnd_seq(r), 40}));
        p.tail_ms = 600;
        return p;
    }
    if (r.chance(0.02)) { // A sits on a 32-64 KiB link and is ordered to send a very long train with long pauses (minutes of emission)
        p.family = 6;
        p.nodes.resize(2);
        int A = (int)r.below(2), B = 1 - A;
        p.nodes[A].mtu = (uint32_t)r.pickl({32768, 65535, 65536}); p.nodes[A].proc_us = 0; p.nodes[B].proc_us = 0;
        if (p.nodes[B].mtu < 1500) p.nodes[B].mtu = 1500;
        size_t cnt = (size_t)r.pickl({1176, 1177, 1178, 1300, 2000});
        Op e = mk(OP_EMIT, 30, {mapper, -1, A, rnd_seq(r), -1, 0});
        Mac shared = World(p).station_mac(5);
        e.blob = rnd_descs(r, cnt, &shared, &nm[B]); // one spoofed source: the peer records a single observation, the wire carries them all
        for (size_t d = 0; d < cnt; d++) e.blob[d * 14 + 1] = (uint8_t)r.pickl({255, 255, 255, 254, 200});
        p.ops.push_back(e);
        p.ops.push_back(mk(OP_QUERY, 1000, {mapper, -1, B, rnd_seq(r), 3}));
        p.tail_ms = 500;
        return p;
    }
    if (r.chance(0.04)) { // a third interface of the host is re-created (fresh context pointer, first frame) 15..200 times between A's emission and B's Query
        p.family = 5;
        p.nodes.resize(2);
        p.nodes.push_back(rnd_node(r, {GLUE_BARE}));
        for (auto &n : p.nodes) n.glue = GLUE_BARE;
        int A = (int)r.below(2), B = 1 - A;
        Op e = mk(OP_EMIT, 30, {mapper, -1, A, rnd_seq(r), -1, 0});
        e.blob = rnd_descs(r, (size_t)r.range(1, 4), nullptr, &nm[B]);
        for (size_t d = 0; d < e.blob.size() / 14; d++) e.blob[d * 14 + 1] = 0;
        p.ops.push_back(e);
        int64_t K = r.pickl({15, 31, 32, 62, 63, 64, 65, 127, 128, 200});
        for (int64_t k = 0; k < K; k++) {
            p.ops.push_back(mk(OP_ATTR, (uint32_t)r.range(1, 4), {2, 0, 0x80000, 0}));
            Op d = mk(OP_DISCOVER, 1, {mapper, -1, 0, rnd_gen(r), rnd_seq(r), 1, 0, -1}); d.only = 2; d.blob = {2}; p.ops.push_back(d);
        }
        p.ops.push_back(mk(OP_QUERY, 300, {mapper, -1, B, rnd_seq(r), 10}));
        p.tail_ms = 500;
        return p;
    }
    if (r.chance(0.06)) { // B holds a few more observations than one QueryResp carries; one Query; A is ordered to send the most recent (or the first) frame again; Query
        p.family = 4;
        p.nodes.resize(2);
        int A = (int)r.below(2), B = 1 - A;
        if (r.chance(0.7)) p.nodes[B].mtu = (uint32_t)r.pickl({576, 577, 1500, 1500});
        p.nodes[A].proc_us = 0; p.nodes[B].proc_us = 0;
        size_t capB = (p.nodes[B].mtu - 34) / 20, perA = (p.nodes[A].mtu - 34) / 14;
        size_t want = capB + (size_t)r.range(0, 5);
        if (want < 2) want = 2;
        Bytes all = rnd_descs(r, want, nullptr, &nm[B]);
        for (size_t d = 0; d < want; d++) all[d * 14 + 1] = 0;
        for (size_t off = 0; off < want; off += perA) {
            size_t c = std::min(perA, want - off);
            Op e = mk(OP_EMIT, (uint32_t)r.range(20, 60), {mapper, -1, A, rnd_seq(r), -1, 0});
            e.blob.assign(all.begin() + (long)(off * 14), all.begin() + (long)((off + c) * 14));
            p.ops.push_back(e);
        }
        p.ops.push_back(mk(OP_QUERY, (uint32_t)r.range(300, 600), {mapper, -1, B, rnd_seq(r), 0}));
        size_t which = r.chance(0.6) ? want - 1 : (r.chance(0.5) ? 0 : (size_t)r.below(want));
        Op e2 = mk(OP_EMIT, (uint32_t)r.range(20, 100), {mapper, -1, A, rnd_seq(r), -1, 0});
        e2.blob.assign(all.begin() + (long)(which * 14), all.begin() + (long)((which + 1) * 14));
        p.ops.push_back(e2);
        p.ops.push_back(mk(OP_QUERY, (uint32_t)r.range(300, 600), {mapper, -1, B, rnd_seq(r), 40}));
        p.tail_ms = 600;
        return p;
    }
    for (int rd = 0; rd < rounds; rd++) {
        int A = (int)r.below(2), B = 1 - A;
        size_t cnt = (size_t)r.range(1, 6);
        Op e = mk(OP_EMIT, (uint32_t)r.range(20, 200), {mapper, -1, A, r.chance(0.1) ? 0 : (int64_t)rnd_seq(r), -1, 0}); // sequence number 0: an Emit that asks for no acknowledgement is an Emit all the same
        // descriptor source: A itself, or an address the mapper makes A spoof - possibly one that unrelated stations also use
        int pool = (int)r.below(5);
        Mac spoof = pool == 0 ? nm[A] : pool == 3 ? nm[B] : pool == 4 ? (r.chance(0.5) ? MAC_BCAST : MAC_ZERO) : World(p).station_mac(4 + (int)r.below(2));
        e.blob = rnd_descs(r, cnt, &spoof, &nm[B]);
        if (r.chance(0.08)) e.blob[14 * r.below(cnt)] = (uint8_t)r.pickl({2, 2, 3, 128, 255}); // a descriptor of a kind this responder does not know (it orders nothing), in front of, between or behind the Probe/Train orders
        if ((pool == 1 || pool == 2) && r.chance(0.7)) // unrelated traffic from the station that really owns that address, seen by B just before
            p.ops.push_back(mk(OP_PROBE, (uint32_t)r.range(1, 30), {spoof.a[5], spoof.a[5], r.chance(0.5) ? wire::W_PROBE : wire::W_TRAIN, 100 + B, 100 + B, 0, 0, 0}));
        p.ops.push_back(e);
        int un = (int)r.below(4);
        for (int i = 0; i < un; i++) p.ops.push_back(rnd_lan_op(r, p, m, 3, mapper));
        p.ops.push_back(mk(OP_QUERY, (uint32_t)r.range(1500, 3000), {mapper, -1, B, rnd_seq(r), 20}));
    }
    p.tail_ms = 600;
    return p;
}

// A long-lived mapping session of the documented flow: frames every 0.8-4.8 s (the Command state times out after 5 s of silence),
// several mappers of which some fall silent, so that single sessions pass their 60 s expiry while the table as a whole stays in use.
static void keepalive_ops(Rng &r, Plan &p, int node_count) {
    int nm = (int)r.range(2, 3);
    uint16_t gen[3]; int64_t xid[3];
    for (int m = 0; m < nm; m++) { gen[m] = rnd_gen(r); xid[m] = rnd_seq(r); }
    int silent = (int)r.below((uint64_t)nm);          // this mapper stops talking after its first Discover
    int n = (int)r.range(14, 45);
    for (int m = 0; m < nm; m++) { Op o = mk(OP_DISCOVER, (uint32_t)r.range(5, 900), {m, -1, 0, gen[m], xid[m], 1, r.range(0, 3), r.chance(0.5) ? -1 : 0}); o.blob = {(uint8_t)r.below((uint64_t)node_count)}; p.ops.push_back(o); }
    for (int i = 0; i < n; i++) {
        uint32_t dt = (uint32_t)r.range(800, 4800);
        int m = (int)r.below((uint64_t)nm);
        if (m == silent && r.chance(0.9)) m = (m + 1) % nm;
        int x = (int)r.below(10);
        if (x < 6) { if (r.chance(0.3)) xid[m] = r.chance(0.1) ? 0 : (int64_t)rnd_seq(r); Op o = mk(OP_DISCOVER, dt, {m, -1, 0, gen[m], xid[m], 1, r.range(0, 3), r.chance(0.6) ? -1 : 0}); o.blob = {(uint8_t)r.below((uint64_t)node_count)}; p.ops.push_back(o); }
        else if (x < 8) p.ops.push_back(mk(OP_HELLO, dt, {5, rnd_gen(r), 0, 1, 0, 0}));
        else if (x < 9 && r.chance(0.5)) p.ops.push_back(mk(OP_QUERY, dt, {m, -1, 0, rnd_seq(r), 0}));
        else if (x < 9) { Op e = mk(OP_EMIT, dt, {m, -1, 0, rnd_seq(r), -1, 0}); e.blob = rnd_descs(r, (size_t)r.range(1, 2)); p.ops.push_back(e); } // the mapping engine sits in its Emit state until the next frame: ticks in that state expire sessions like any other tick
        else p.ops.push_back(mk(OP_RESET, dt, {m, -1, r.chance(0.8) ? 0 : 1, r.chance(0.5) ? 1 : 0, 0, 0}));
    }
    // afterwards everybody shows up again, with old and new transaction ids
    for (int m = 0; m < nm; m++) { if (r.chance(0.5)) xid[m] = rnd_seq(r); Op o = mk(OP_DISCOVER, (uint32_t)r.range(100, 4000), {m, -1, 0, gen[m], xid[m], 1, r.range(0, 3), r.chance(0.5) ? -1 : 0}); o.blob = {0}; p.ops.push_back(o); }
}

static Plan gen_C11(uint64_t seed, Rng &r) {
    Plan p = base_plan("C11", seed, r);
    NodeCfg n = rnd_node(r, {GLUE_DARWIN});
    if (r.chance(0.6)) n.mtu = (uint32_t)r.pickl({1500, 1500, 4096, 9216});
    bool huge = r.chance(0.015);
    if (huge) { n.mtu = (uint32_t)r.pickl({65535, 65536, 60042}); n.proc_us = 0; }
    p.nodes.push_back(n);
    if (!huge && r.chance(0.2)) p.nodes.push_back(rnd_node(r, {GLUE_DARWIN}));
    if (r.chance(0.25)) { p.family = 1; keepalive_ops(r, p, (int)p.nodes.size()); p.tail_ms = (uint32_t)r.range(500, 3000); return p; }
    if (!huge && r.chance(0.05)) { // as many sessions as the table holds (8 stations x generations), then known mappers repeat their Discover - same number, new number, same again
        p.family = 3;
        p.nodes.resize(1);
        int M = (int)r.pickl({15, 16, 16, 16, 17});
        uint16_t g = rnd_gen(r);
        std::vector<int64_t> seqs;
        for (int k = 0; k < M; k++) { seqs.push_back(rnd_seq(r)); Op o = mk(OP_DISCOVER, (uint32_t)r.range(1, 40), {k % 8, -1, 0, (int64_t)((g + k / 8) & 0xFFFF), seqs.back(), 1, r.range(0, 3), r.chance(0.5) ? -1 : 0}); o.blob = {0}; p.ops.push_back(o); }
        int reps = (int)r.range(3, 12);
        for (int i = 0; i < reps; i++) {
            int k = (int)r.below((uint64_t)M);
            if (r.chance(0.5)) seqs[(size_t)k] = rnd_seq(r);
            Op o = mk(OP_DISCOVER, (uint32_t)r.range(1, 40), {k % 8, -1, 0, (int64_t)((g + k / 8) & 0xFFFF), seqs[(size_t)k], 1, r.range(0, 3), r.chance(0.5) ? -1 : 0}); o.blob = {0}; p.ops.push_back(o);
            if (r.chance(0.5)) p.ops.push_back(o); // once more with the very same number
        }
        return p;
    }
    int mapper = (int)r.below(3);
    uint16_t gen = rnd_gen(r);
    int64_t xid = rnd_seq(r);
    int nops = (int)r.range(2, 25);
    int maxst = (int)std::min((int64_t)(r.chance(0.15) ? 1500 : 240), (int64_t)(n.mtu - 36) / 6 - 1); // fillers + the own address fill the frame exactly at the upper end
    for (int i = 0; i < nops; i++) {
        int x = (int)r.below(12);
        if (x < 7) {
            if (r.chance(0.3)) xid = r.chance(0.15) ? 0 : (int64_t)rnd_seq(r);
            if (r.chance(0.15)) gen = rnd_gen(r);
            if (r.chance(0.1)) mapper = (int)r.below(3);
            Op o = mk(OP_DISCOVER, rnd_dt(r), {mapper, r.chance(0.1) ? (r.chance(0.5) ? 100 + (int64_t)r.below(p.nodes.size()) : 300 + r.range(0, 5)) : rnd_bridge(r, mapper), r.chance(0.8) ? 0 : 1, gen, xid, 1, 0, 0}); // Ethernet source: the mapper, a bridge, our own address (a reflecting switch), or a one-byte neighbour of it
            int fill = r.chance(0.3) ? (int)r.pickl({0, 1, 2, maxst, maxst - 1}) : (int)r.range(0, maxst);
            if (huge) fill = std::min((int)(n.mtu - 36) / 6 - 1, (int)r.pickl({9998, 9999, 10000, 10001, 10900}));
            else if (maxst > 300 && r.chance(0.5)) fill = std::min(maxst, (int)r.pickl({254, 255, 256, 257, 510, 511, 512, 513, 767, 768, 1023, 1024, 1279, 1280})); // with our address inserted: counts around multiples of 256
            int pos;
            switch (r.below(5)) { case 0: pos = -1; break; case 1: pos = 0; break; case 2: pos = fill; break; case 3: pos = fill / 2; break; default: pos = (int)r.range(0, fill); break; }
            if (r.chance(0.08)) { o.a[5] = 2; }
            o.a[6] = fill; o.a[7] = pos;
            o.blob = {(uint8_t)r.below(p.nodes.size())};
            if (r.chance(0.07)) { o.a[5] = 3; o.blob.push_back((uint8_t)r.below(5)); } // own address straddling two entries: not an acknowledgement
            if (r.chance(0.05)) o.a[5] = 0;
            if (r.chance(huge ? 0.5 : 0.05)) { // the frame is cut in the middle of an entry that begins with our address: the bytes that fit are ours, the count claims more than the frame holds
                int64_t len = (int64_t)n.mtu + r.pickl({0, 0, -1, -2, -3, -4, -5, -6, -7}), k = (len - 36) % 6;
                if (k <= 0 || r.chance(0.2)) k = r.range(1, 6);
                o.f.push_back({F_PAD, len, 0x11}); o.f.push_back({F_COUNT, r.pickl({0xFFFF, (int64_t)(n.mtu - 36) / 6 + 1, (int64_t)(n.mtu - 36) / 6}), 0}); o.f.push_back({F_TAILMAC, k, 0});
                if (r.chance(0.6)) o.a[7] = -1; // and it is nowhere else in the list
            }
            p.ops.push_back(o);
            if (r.chance(0.04)) { // the host is suspended for hours (no tick runs); a neighbour's Hello is waiting in the socket when it wakes up, then the mapper asks again under a new number
                p.ops.push_back(mk(OP_STALL, r.chance(0.6) ? (uint32_t)r.range(6000, 25000) : 1, {0, 1000 * (r.pickl({65535, 65536, 65536, 131072, 4294967, 86400, 3600}) + r.range(0, 61)) + r.range(0, 999)})); // often after a pause in which the mapping engine has gone idle on its own
                p.ops.push_back(mk(OP_HELLO, (uint32_t)r.range(1, 10), {5, rnd_gen(r), 0, 1, 0, 0}));
                Op again = o; again.dt = (uint32_t)r.range(1, 30); again.a[4] = rnd_seq(r); again.f.clear();
                p.ops.push_back(again);
            }
        } else if (x < 9) p.ops.push_back(mk(OP_RESET, rnd_dt(r), {mapper, -1, r.chance(0.8) ? 0 : 1, r.chance(0.5) ? 1 : 0, 0, 0}));
        else if (x < 10) p.ops.push_back(mk(OP_HELLO, rnd_dt(r), {5, rnd_gen(r), 0, 1, 0, 0}));
        else { Op o = mk(OP_STRAY, rnd_dt(r), {(int64_t)r.below(4), r.chance(0.7) ? 0 : r.range(0, 255), r.chance(0.5) ? r.range(0, 13) : r.range(0, 255), r.chance(0.5) ? 0 : -1, rnd_seq(r), 0, 0}); o.blob.resize(r.below(30)); for (auto &c : o.blob) c = (uint8_t)r.next(); p.ops.push_back(o); }
    }
    return p;
}

static void api_prelude(Plan &p, Rng &r) {
    p.api_world = true;
    p.t0 = r.chance(0.04) ? (uint64_t)r.pickl({0, 0, 1, 100, 500, 999}) : (uint64_t)r.range(1, 5000) * 1000; // API walks too may start in the clock's first second

    NodeCfg n;
    n.glue = GLUE_DARWIN; n.mtu = 1500; n.attr_seed = r.next() | 1;
    p.nodes.push_back(n);
}

static Plan gen_C12(uint64_t seed, Rng &r) {
    Plan p = base_plan("C12", seed, r);
    p.family = (int)r.below(2);
    if (p.family == 0) { // frame level, documented Darwin flow
        int nn = 1 + (int)r.below(2);
        for (int i = 0; i < nn; i++) p.nodes.push_back(rnd_node(r, {GLUE_DARWIN}));
        int mapper = 0;
        int nops = (int)r.range(3, 30);
        if (r.chance(0.05)) { // the acknowledging Discover carries a long station list (jumbo link): our address somewhere among 254..1024 entries
            p.family = 4;
            p.nodes.resize(1);
            p.nodes[0].mtu = (uint32_t)r.pickl({9000, 9216, 4096, 9216});
            int lim = (int)(p.nodes[0].mtu - 36) / 6 - 1;
            uint16_t g = rnd_gen(r);
            { Op o = mk(OP_DISCOVER, 5, {0, -1, 0, g, rnd_seq(r), 1, 2, -1}); o.blob = {0}; p.ops.push_back(o); }
            p.ops.push_back(mk(OP_TICK, (uint32_t)r.range(300, 1500), {0}));
            int fill = std::min(lim, (int)r.pickl({254, 255, 256, 257, 511, 512, 513, 1023, 1024}));
            { Op o = mk(OP_DISCOVER, (uint32_t)r.range(10, 400), {0, -1, 0, g, rnd_seq(r), 1, fill, r.chance(0.3) ? 0 : r.range(1, fill)}); o.blob = {0}; p.ops.push_back(o); }
            p.tail_ms = (uint32_t)r.range(3000, 8000);
            return p;
        }
        if (r.chance(0.3)) { keepalive_ops(r, p, nn); nops = (int)r.range(0, 6); }
        else if (r.chance(0.06)) { // as many mappers as the session table holds (or one more / one less), then each of them acknowledges us
            p.family = 3;
            int M = (int)r.pickl({15, 16, 16, 16, 17});
            uint16_t g = rnd_gen(r);
            for (int k = 0; k < M && k < 8; k++) { Op o = mk(OP_DISCOVER, (uint32_t)r.range(1, 60), {k, -1, 0, g, rnd_seq(r), 1, 2, -1}); o.blob = {0}; p.ops.push_back(o); }
            for (int k = 8; k < M; k++) { Op o = mk(OP_DISCOVER, (uint32_t)r.range(1, 60), {k % 8, -1, 0, (int64_t)((g + 1 + k) & 0xFFFF), rnd_seq(r), 1, 2, -1}); o.blob = {0}; p.ops.push_back(o); } // the same stations under further generations
            int skip = r.chance(0.7) ? -1 : (int)r.below((uint64_t)M);
            for (int k = 0; k < M; k++) { if (k == skip) continue; Op o = mk(OP_DISCOVER, (uint32_t)r.range(1, 60), {k % 8, -1, 0, (int64_t)(k < 8 ? g : ((g + 1 + k) & 0xFFFF)), rnd_seq(r), 1, 2, 0}); o.blob = {0}; p.ops.push_back(o); }
            nops = (int)r.range(0, 4);
            p.tail_ms = (uint32_t)r.range(3000, 9000);
            for (int i = 0; i < nops; i++) p.ops.push_back(mk(OP_TICK, (uint32_t)r.range(100, 1500), {0}));
            return p;
        }
        for (int i = 0; i < nops; i++) {
            int x = (int)r.below(20);
            uint32_t dt = r.chance(0.5) ? (uint32_t)r.range(0, 300) : (r.chance(0.7) ? (uint32_t)r.range(300, 5000) : (uint32_t)r.range(5000, 70000));
            if (x < 8) {
                Op o = mk(OP_DISCOVER, dt, {mapper, rnd_bridge(r, mapper), r.chance(0.85) ? 0 : 1, r.chance(0.7) ? 0x0707 : (int64_t)rnd_gen(r), rnd_seq(r), r.chance(0.4) ? 0 : 1, r.range(0, 4), r.chance(0.6) ? -1 : 0});
                o.blob = {0};
                p.ops.push_back(o);
            } else if (x < 10) p.ops.push_back(mk(OP_RESET, dt, {mapper, -1, r.chance(0.8) ? 0 : 1, r.chance(0.3) ? 1 : 0, 0, 0}));
            else if (x < 13) p.ops.push_back(mk(OP_HELLO, dt, {(int64_t)r.range(4, 7), rnd_gen(r), 0, r.chance(0.5) ? 1 : r.range(2, 60), r.chance(0.5) ? 0 : r.range(1, 400), 0}));
            else if (x < 15) p.ops.push_back(mk(OP_STALL, dt, {r.chance(0.5) ? 0 : -1, r.chance(0.6) ? r.range(50, 3000) : (r.chance(0.9) ? r.range(3000, 120000) : big_jump(r) * (r.chance(0.5) ? 1 : 1000))}));
            else if (x < 16) p.ops.push_back(mk(OP_PARTITION, dt, {-1, r.chance(0.5) ? r.range(1000, 40000) : r.range(40000, 120000)}));
            else if (x < 17) p.ops.push_back(mk(OP_TICK, dt, {0}));
            else if (x < 18) { if (r.chance(0.5)) mapper = (int)r.below(3); p.ops.push_back(mk(OP_QUERY, dt, {mapper, -1, 0, rnd_seq(r), 0})); }
            else if (x < 19) { p.ops.push_back(mk(OP_CHARGE, dt, {mapper, 0, 0, rnd_seq(r)})); if (r.chance(0.5)) p.ops.push_back(mk(OP_TICK, (uint32_t)r.range(1000, 3000), {0})); if (r.chance(0.5)) p.ops.push_back(mk(OP_TICK, (uint32_t)r.range(28000, 45000), {0})); }
            else { Op e = mk(OP_EMIT, dt, {mapper, -1, 0, rnd_seq(r), -1, 0}); e.blob = rnd_descs(r, (size_t)r.range(1, 3)); p.ops.push_back(e); }
        }
        p.tail_ms = (uint32_t)(r.chance(0.5) ? r.range(1000, 8000) : r.range(8000, 130000));
    } else { // API level: arbitrary interleavings on the public API with the Darwin wiring of last_hello_tx_ms
        api_prelude(p, r);
        p.t0 += (uint64_t)r.range(0, 999);
        int nops = (int)r.range(10, 200);
        int nkeys = (int)r.range(1, 6);
        for (int i = 0; i < nops; i++) {
            int x = (int)r.below(30);
            if (x < 9) p.ops.push_back(mk(OP_A_TICK, 0, {}));
            else if (x < 16) p.ops.push_back(mk(OP_A_ADV, 0, {r.chance(0.15) ? r.pickl({99, 100, 101, 119, 120, 121, 299, 300, 301, 999, 1000, 1001, 29999, 30000, 30001, 59999, 60000, 60001}) : r.chance(0.5) ? r.range(0, 150) : (r.chance(0.6) ? r.range(150, 2500) : (r.chance(0.93) ? r.range(2500, 120000) : big_jump(r) * (r.chance(0.5) ? 1 : 1000)))}));
            else if (x < 19) p.ops.push_back(mk(OP_A_TADD, 0, {(int64_t)r.below((uint64_t)nkeys), rnd_seq(r)}));
            else if (x < 21) p.ops.push_back(mk(OP_A_TCOMPL, 0, {(int64_t)r.below((uint64_t)nkeys), (int64_t)r.below(2)}));
            else if (x < 22) p.ops.push_back(mk(OP_A_TREM, 0, {(int64_t)r.below((uint64_t)nkeys)}));
            else if (x < 23) p.ops.push_back(mk(OP_A_TCLR, 0, {}));
            else if (x < 25) p.ops.push_back(mk(OP_A_HEARD, 0, {r.chance(0.7) ? r.range(1, 12) : r.range(12, 500)}));
            else if (x < 27) p.ops.push_back(mk(OP_A_DISCBOOK, 0, {}));
            else if (x < 28) p.ops.push_back(mk(OP_A_ENUM, 0, {(int64_t)r.below(4)}));
            else if (x < 29) p.ops.push_back(r.chance(0.7) ? mk(OP_A_MAP, 0, {r.pickl({0, 2, 8, -1, -3, 6})}) : mk(OP_A_CHARGE, 0, {}));
            else p.ops.push_back(mk(OP_A_INACT, 0, {}));
        }
    }
    return p;
}

static int64_t rnd_r(Rng &r) {
    if (r.chance(0.2)) { // where an intermediate product c*r (c a factor of the formula's constants) wraps a 32-bit word to a small value: r just above k * 2^32 / c
        static const int64_t C[] = {3, 5, 9, 15, 45, 45, 45, 90, 2025};
        int64_t c = C[r.below(9)], k = r.range(1, c - 1);
        return ((k << 32) + c - 1) / c + r.range(0, 15);
    }
    switch (r.below(4)) {
    case 0: return r.pickl({0, 1, 2, 9, 10, 14, 15, 16, 9769, 9770, 9771, 32768, 65535, 65536, 65537, 92681, 92682, 131072, 131073, 0x7FFFFFFF, 0x80000000ll, 0xFFFFFFFFll, 0xFFFF0000ll, 196608, 262144});
    case 1: { int64_t k = r.range(1, 65535); return k * 65536 + r.range(-1, 1); }
    case 2: { int s = (int)r.below(32); return ((int64_t)1 << s) + r.range(-1, 1); }
    default: { int s = (int)r.below(33); return (int64_t)(r.next() & ((s == 32) ? 0xFFFFFFFFull : ((1ull << s) - 1))); }
    }
}
static Plan gen_C13(uint64_t seed, Rng &r) {
    Plan p = base_plan("C13", seed, r);
    p.family = r.chance(0.8) ? 0 : 1;
    if (p.family == 0) { // API level, r injected (fast-forward of r calls of band_on_hello_received)
        api_prelude(p, r);
        p.ops.push_back(mk(OP_A_TADD, 0, {0, 5}));
        p.ops.push_back(mk(OP_A_DISCBOOK, 0, {}));
        int n = (int)r.range(1, 12);
        for (int i = 0; i < n; i++) {
            int64_t Ni = r.chance(0.4) ? r.pickl({45, 46, 180, 4500, 9999, 10000}) : r.range(45, 10000);
            int begun = (int)r.below(2);
            int64_t r1 = rnd_r(r) & 0xFFFFFFFFll, r2 = r.chance(0.5) ? ((r1 + (r.chance(0.5) ? r.range(0, 3) : (int64_t)(r.next() & 0xFFFFFF))) & 0xFFFFFFFFll) : (rnd_r(r) & 0xFFFFFFFFll);
            p.ops.push_back(mk(OP_A_ADV, 0, {r.range(0, 900)}));
            p.ops.push_back(mk(OP_A_BANDSET, 0, {Ni, begun}));
            p.ops.push_back(mk(OP_A_SETR, 0, {r1}));
            p.ops.push_back(mk(OP_A_BLOCKEND, 0, {}));
            p.ops.push_back(mk(OP_A_BANDSET, 0, {Ni, (begun || r1 >= 10) ? 1 : 0}));
            p.ops.push_back(mk(OP_A_SETR, 0, {r2}));
            p.ops.push_back(mk(OP_A_BLOCKEND, 0, {}));
            if (r.chance(0.3)) { p.ops.push_back(mk(OP_A_HEARD, 0, {r.range(1, 400)})); p.ops.push_back(mk(OP_A_ADV, 0, {r.range(300, 700)})); p.ops.push_back(mk(OP_A_TICK, 0, {})); }
            if (r.chance(0.1)) { // no tick for about 2^31 / 2^32 ms; the session is refreshed just before the late tick
                p.ops.push_back(mk(OP_A_TADD, 0, {0, 5})); p.ops.push_back(mk(OP_A_DISCBOOK, 0, {})); p.ops.push_back(mk(OP_A_ADV, 0, {r.range(100, 400)})); p.ops.push_back(mk(OP_A_TICK, 0, {}));
                p.ops.push_back(mk(OP_A_HEARD, 0, {r.range(1, 30)}));
                p.ops.push_back(mk(OP_A_ADV, 0, {((int64_t)1 << (31 + (int)r.below(2))) + r.range(-300, 2000)}));
                p.ops.push_back(mk(OP_A_TADD, 0, {0, 6}));
                p.ops.push_back(mk(OP_A_TICK, 0, {}));
            }
            if (r.chance(0.25)) { // an enumeration that ends because the mapper acknowledged us (not by Reset or expiry), directly followed by a new one
                p.ops.push_back(mk(OP_A_TADD, 0, {0, 5}));
                p.ops.push_back(mk(OP_A_DISCBOOK, 0, {}));
                int tk = (int)r.range(1, 4);
                for (int q = 0; q < tk; q++) { p.ops.push_back(mk(OP_A_ADV, 0, {r.range(200, 1500)})); p.ops.push_back(mk(OP_A_TICK, 0, {})); }
                p.ops.push_back(mk(OP_A_TCOMPL, 0, {0, 1}));
                p.ops.push_back(mk(OP_A_TICK, 0, {}));
                if (r.chance(0.6)) { p.ops.push_back(mk(OP_A_ADV, 0, {r.range(0, 200)})); p.ops.push_back(mk(OP_A_TICK, 0, {})); if (r.chance(0.5)) p.ops.push_back(mk(OP_A_TICK, 0, {})); } // else one tick only: Wait, not yet Quiescent
                p.ops.push_back(mk(OP_A_ADV, 0, {r.range(0, 600)}));
                p.ops.push_back(mk(OP_A_TADD, 0, {1, 6}));
                p.ops.push_back(mk(OP_A_DISCBOOK, 0, {}));
                p.ops.push_back(mk(OP_A_HEARD, 0, {r.range(1, 9)}));
                p.ops.push_back(mk(OP_A_BLOCKEND, 0, {}));
                p.ops.push_back(mk(OP_A_TCOMPL, 0, {0, 0}));
            }
            if (r.chance(0.4)) { // Hellos counted one by one across consecutive blocks, the first of them before enumeration has begun
                p.ops.push_back(mk(OP_A_BANDSET, 0, {r.range(45, 10000), 0}));
                p.ops.push_back(mk(OP_A_SETR, 0, {0}));
                p.ops.push_back(mk(OP_A_HEARD, 0, {r.range(0, 9)}));
                p.ops.push_back(mk(OP_A_BLOCKEND, 0, {}));
                if (r.chance(0.7)) p.ops.push_back(mk(OP_A_DISCBOOK, 0, {}));
                p.ops.push_back(mk(OP_A_HEARD, 0, {r.chance(0.5) ? r.range(0, 9) : r.range(10, 40)}));
                p.ops.push_back(mk(OP_A_BLOCKEND, 0, {}));
                p.ops.push_back(mk(OP_A_HEARD, 0, {r.range(0, 20)}));
                p.ops.push_back(mk(OP_A_BLOCKEND, 0, {}));
            }
        }
    } else { // frame level: real Hello storms against the Darwin flow, blocks ended by the real tick
        NodeCfg n = rnd_node(r, {GLUE_DARWIN});
        n.proc_us = 0;
        p.nodes.push_back(n);
        Op d = mk(OP_DISCOVER, 5, {0, -1, 0, 0x0909, rnd_seq(r), 1, 2, -1});
        d.blob = {0};
        p.ops.push_back(d);
        int storms = (int)r.range(1, 5);
        for (int s = 0; s < storms; s++) {
            int64_t cnt = r.chance(0.5) ? r.pickl({1, 9, 10, 14, 15, 16, 100}) : (r.chance(0.8) ? r.range(1, 3000) : r.range(3000, 70000));
            p.ops.push_back(mk(OP_HELLO, (uint32_t)r.range(0, 400), {(int64_t)r.range(4, 7), rnd_gen(r), 0, cnt, cnt <= 3000 && r.chance(0.5) ? r.range(1, 280) : 0, 0}));
            if (r.chance(0.3)) p.ops.push_back(mk(OP_STALL, 1, {0, r.range(100, 900)}));
            if (r.chance(0.06)) { // a very long stall (around 2^31 / 2^32 ms); a Discover waiting in the socket buffer refreshes the session before the late tick
                p.ops.push_back(mk(OP_STALL, 1, {0, ((int64_t)1 << (31 + (int)r.below(2))) + r.range(-300, 2000)}));
                Op d4 = mk(OP_DISCOVER, 50, {0, -1, 0, 0x0909, rnd_seq(r), 1, 2, -1}); d4.blob = {0}; p.ops.push_back(d4);
                p.ops.push_back(mk(OP_HELLO, (uint32_t)r.range(1, 100), {(int64_t)r.range(4, 7), rnd_gen(r), 0, r.range(1, 30), r.range(1, 20), 0}));
            }
            if (r.chance(0.3)) { Op d2 = mk(OP_DISCOVER, (uint32_t)r.range(100, 900), {0, -1, 0, 0x0909, rnd_seq(r), 1, 2, -1}); d2.blob = {0}; p.ops.push_back(d2); }
            if (r.chance(0.3)) { // the mapper acknowledges us: the enumeration ends by completion; another mapper opens a new one while our last Hello is less than a second old
                Op ack = mk(OP_DISCOVER, (uint32_t)r.range(900, 2600), {0, -1, 0, 0x0909, rnd_seq(r), 1, 2, 0}); ack.blob = {0}; p.ops.push_back(ack);
                if (r.chance(0.5)) { p.ops.push_back(mk(OP_TICK, (uint32_t)r.range(1, 60), {0})); p.ops.push_back(mk(OP_TICK, (uint32_t)r.range(1, 60), {0})); } // else: the next Discover arrives before any further tick (the enumeration is in Wait, not yet Quiescent)
                Op d3 = mk(OP_DISCOVER, (uint32_t)r.range(1, 500), {1, -1, 0, rnd_gen(r), rnd_seq(r), 1, 2, -1}); d3.blob = {0}; p.ops.push_back(d3);
                p.ops.push_back(mk(OP_HELLO, (uint32_t)r.range(1, 100), {(int64_t)r.range(4, 7), rnd_gen(r), 0, r.range(1, 9), r.range(1, 20), 0}));
            }
        }
        p.tail_ms = (uint32_t)r.range(400, 3000);
    }
    return p;
}

static Plan gen_C14(uint64_t seed, Rng &r, uint64_t index) {
    Plan p = base_plan("C14", seed, r);
    api_prelude(p, r);
    static const int TO[3] = {0, 5, 30};
    if (index < 3 * 384 * 5) { // stratified single-step cells
        p.family = 9;
        int s = (int)(index / (384 * 5)), in = (int)((index / 5) % 384) - 128, ec = (int)(index % 5);
        static const int64_t Q[5] = {0, 1, 5, 30, 300};
        const int64_t A[5] = {0, TO[s] - 1, TO[s], TO[s] + 1, 10 * TO[s]};
        int64_t el = s == 0 ? Q[ec] : A[ec];
        p.ops.push_back(mk(OP_A_SETMAP, 0, {s, el}));
        p.ops.push_back(mk(OP_A_MAP, 0, {in}));
        return p;
    }
    p.family = (int)r.below(2);
    if (r.chance(0.05)) { // a session that is never acknowledged: RepeatBand keeps sending Hellos every second while the mapper stays silent for 30 s and more
        p.family = 3;
        p.ops.push_back(mk(OP_A_MAP, 0, {0}));
        p.ops.push_back(mk(OP_A_TADD, 0, {0, rnd_seq(r)}));
        p.ops.push_back(mk(OP_A_DISCBOOK, 0, {}));
        p.ops.push_back(mk(OP_A_INACT, 0, {}));
        int64_t total = 0, lim = r.pickl({29000, 30000, 31000, 35000, 45000});
        while (total < lim) { int64_t d = r.chance(0.7) ? r.range(100, 1100) : r.range(1100, 4000); p.ops.push_back(mk(OP_A_ADV, 0, {d})); p.ops.push_back(mk(OP_A_TICK, 0, {})); total += d; }
        p.ops.push_back(mk(OP_A_ADV, 0, {r.range(1000, 3000)})); p.ops.push_back(mk(OP_A_TICK, 0, {}));
        return p;
    }
    if (r.chance(0.15)) { // the port's log calls take time: the clock moves while a step runs, and the input still counts from the second read on entry
        p.call_us = (uint32_t)r.pickl({100, 500, 1000, 2000, 3000, 6000});
        if (r.chance(0.7)) p.t0 = p.t0 / 1000 * 1000 + (uint64_t)r.range(990, 999);
        if (r.chance(0.6)) { // a Discover (and perhaps an Emit) handled across a second boundary, then silence of about that state's timeout, then an input
            p.ops.push_back(mk(OP_A_MAP, 0, {0}));
            bool em = r.chance(0.4);
            if (em) { p.ops.push_back(mk(OP_A_ADV, 0, {1000 - (int64_t)r.range(1, 9)})); p.ops.push_back(mk(OP_A_MAP, 0, {2})); }
            p.ops.push_back(mk(OP_A_ADV, 0, {1000 * ((em ? 30 : 5) + r.range(-1, 1))}));
            p.ops.push_back(mk(OP_A_MAP, 0, {r.pickl({0, 2, 3, 6, 7, 8, 10, -2, -3})}));
        }
    }
    int nops = (int)r.range(5, 120);
    for (int i = 0; i < nops; i++) {
        int x = (int)r.below(20);
        if (x < 9) p.ops.push_back(mk(OP_A_MAP, 0, {r.chance(0.8) ? r.pickl({0, 1, 2, 3, 4, 5, 6, 7, 8, 9, 10, 11, 12, -1, -2, -3, 127, 128, 255}) : r.range(-128, 255)}));
        else if (x < 14) p.ops.push_back(mk(OP_A_ADV, 0, {1000 * (r.chance(0.7) ? r.pickl({0, 1, 4, 5, 6, 29, 30, 31, 50, 300}) : r.range(0, 70))}));
        else if (x < 16) p.ops.push_back(mk(OP_A_TICK, 0, {}));
        else if (x < 17) {
            if (r.chance(0.85)) p.ops.push_back(mk(OP_A_INACT, 0, {}));
            else { Op o = mk(OP_A_REINIT, 0, {}); if (r.chance(0.4)) { Fault f; f.kind = F_ALLOCFAIL; f.a = r.range(1, 8); f.b = 1; o.f.push_back(f); } p.ops.push_back(o); } // the new instance may come up with a constructor that found no memory (the daemon does not check)
        }
        else if (x < 18) p.ops.push_back(mk(OP_A_TADD, 0, {(int64_t)r.below(4), rnd_seq(r)}));
        else if (x < 19) p.ops.push_back(r.chance(0.8) ? mk(OP_A_CHARGE, 0, {}) : mk(OP_A_SETMAP, 0, {(int64_t)r.below(3), r.chance(0.5) ? r.pickl({0, 4, 5, 6, 29, 30, 31}) : big_jump(r)}));
        else p.ops.push_back(mk(OP_A_ADV, 0, {r.chance(0.8) ? r.range(0, 2500) : 1000 * big_jump(r)}));
    }
    return p;
}

static Plan gen_C15(uint64_t seed, Rng &r, uint64_t index) {
    Plan p = base_plan("C15", seed, r);
    api_prelude(p, r);
    if (index < 4 * 8 * 5) {
        p.family = 9;
        int s = (int)(index / 40), e = (int)((index / 5) % 8), ec = (int)(index % 5);
        static const int64_t E[5] = {0, 0, 1, 2, 10}; // timeout 1 s: t-1 = 0, t = 1, t+1 = 2, 10t = 10
        int64_t el = E[ec];
        p.ops.push_back(mk(OP_A_SETSESS, 0, {s, el}));
        p.ops.push_back(mk(OP_A_SESS, 0, {e}));
        return p;
    }
    if (r.chance(0.12)) { p.call_us = (uint32_t)r.pickl({100, 500, 1000, 2000, 3000}); if (r.chance(0.6)) p.t0 = p.t0 / 1000 * 1000 + (uint64_t)r.range(994, 999); } // the port's log calls take time (the clock moves while the core runs); walks that sit just below a second boundary
    int nops = (int)r.range(5, 100);
    for (int i = 0; i < nops; i++) {
        int x = (int)r.below(10);
        if (r.chance(0.02)) { // a burst: the same event 30..34 / 126..130 / 254..258 times within one clock second, then a different one
            int64_t ev = (int64_t)r.below(8), n = r.pickl({30, 31, 32, 33, 34, 63, 64, 65, 126, 127, 128, 129, 254, 255, 256, 257});
            for (int64_t k = 0; k < n; k++) p.ops.push_back(mk(OP_A_SESS, 0, {ev}));
            p.ops.push_back(mk(OP_A_SESS, 0, {(int64_t)r.below(8)}));
            continue;
        }
        if (r.chance(0.015)) { // a sparse run: the same event 126..130 / 254..258 / 511..513 times, each more than the inactivity timeout after the previous one, then another event after one more gap
            int64_t ev = (int64_t)r.below(8), n = r.pickl({126, 127, 128, 129, 254, 255, 256, 257, 258, 300, 511, 512, 513}), gap = 1000 * r.pickl({2, 2, 3, 10, 61});
            for (int64_t k = 0; k < n; k++) { p.ops.push_back(mk(OP_A_ADV, 0, {gap})); p.ops.push_back(mk(OP_A_SESS, 0, {ev})); }
            p.ops.push_back(mk(OP_A_ADV, 0, {gap}));
            p.ops.push_back(mk(OP_A_SESS, 0, {r.chance(0.6) ? r.pickl({0, 2, 3}) : (int64_t)r.below(8)}));
            continue;
        }
        if (x < 6) { Op o = mk(OP_A_SESS, 0, {(int64_t)r.below(8)}); if (r.chance(0.05)) { Fault f; f.kind = F_ALLOCFAIL; f.a = 1; f.b = 99; o.f.push_back(f); } p.ops.push_back(o); } // the life-cycle must not depend on memory being available
        else if (x < 7 && r.chance(0.3)) p.ops.push_back(mk(OP_A_REINIT, 0, {})); // a second, third, ... automaton created later in the life of the process
        else if (x < 7 && r.chance(0.4)) p.ops.push_back(mk(OP_A_TICK, 0, {})); // the daemon's periodic tick runs between session events
        else if (x < 9) p.ops.push_back(mk(OP_A_ADV, 0, {r.chance(0.85) ? 1000 * r.pickl({0, 0, 1, 1, 2, 3, 10}) : (r.chance(0.5) ? 1000 * big_jump(r) : 1000 * r.pickl({59, 60, 61, 119, 120, 121, 3599, 3600, 3601, 86399, 86400, 86401, 100, 1000}))}));
        else p.ops.push_back(mk(OP_A_SETSESS, 0, {(int64_t)r.below(4), r.chance(0.85) ? r.pickl({0, 1, 2, 10}) : (r.chance(0.5) ? big_jump(r) : r.pickl({59, 60, 61, 120, 3600, 86400}))}));
    }
    return p;
}

static Plan gen_C16(uint64_t seed, Rng &r) {
    Plan p = base_plan("C16", seed, r);
    if (r.chance(0.1)) { // the table inside the documented flow: a long-lived session (Discovers, Queries, Emits, Hellos) in which single sessions pass their expiry while the flow stays busy
        p.family = 5;
        p.nodes.push_back(rnd_node(r, {GLUE_DARWIN}));
        keepalive_ops(r, p, 1);
        p.tail_ms = (uint32_t)r.range(500, 3000);
        return p;
    }
    api_prelude(p, r);
    p.t0 += (uint64_t)r.range(0, 999);
    int nkeys = (int)r.range(20, 40);
    if (r.chance(0.2)) nkeys = (int)r.range(1, 17);
    int nops = (int)r.range(5, 200);
    double addw = r.chance(0.5) ? 0.5 : 0.3;
    if (r.chance(0.3)) { // structured prefix: a (nearly) full table whose sessions are (nearly) all complete
        p.family = 1;
        int fill = (int)r.pickl({15, 16, 16, 16, 17});
        for (int k = 0; k < fill; k++) p.ops.push_back(mk(OP_A_TADD, 0, {k, rnd_seq(r)}));
        int skip = r.chance(0.6) ? -1 : (int)r.below(16);
        for (int k = 0; k < 16; k++) if (k != skip) p.ops.push_back(mk(OP_A_TCOMPL, 0, {k, 1}));
        if (r.chance(0.5)) p.ops.push_back(mk(OP_A_ADV, 0, {r.range(0, 30000)}));
        nops = (int)r.range(3, 40);
        if (nkeys < 20) nkeys = 24;
    }
    for (int i = 0; i < nops; i++) {
        double x = (double)r.below(1000) / 1000.0;
        int64_t k = (int64_t)r.below((uint64_t)nkeys);
        if (x < addw) p.ops.push_back(mk(OP_A_TADD, 0, {k, rnd_seq(r)}));
        else if (x < addw + 0.12) p.ops.push_back(mk(OP_A_TFIND, 0, {k, rnd_seq(r)}));
        else if (x < addw + 0.22) p.ops.push_back(mk(OP_A_TREM, 0, {k}));
        else if (x < addw + 0.24) p.ops.push_back(r.chance(0.85) ? mk(OP_A_TCLR, 0, {}) : mk(OP_A_REINIT, 0, {}));
        else if (x < addw + 0.32) p.ops.push_back(mk(OP_A_TCOMPL, 0, {k, (int64_t)r.below(2)}));
        else if (x < addw + 0.40) p.ops.push_back(mk(OP_A_TICK, 0, {}));
        else if (x < addw + 0.42) p.ops.push_back(mk(OP_A_INACT, 0, {})); // the mapping engine's 30 s inactivity deadline gets armed: the tick at or after it empties the table, later ticks must not
        else p.ops.push_back(mk(OP_A_ADV, 0, {r.chance(0.5) ? r.range(0, 5000) : (r.chance(0.6) ? 1000 * r.pickl({59, 60, 61, 30, 29, 31, 120}) : (r.chance(0.9) ? r.range(0, 200000) : 1000 * big_jump(r)))}));
    }
    return p;
}

static Plan gen_C17(uint64_t seed, Rng &r) {
    Plan p = base_plan("C17", seed, r);
    p.isolate = true;
    p.nodes.push_back(rnd_node(r, {GLUE_BARE, GLUE_LEGACY, GLUE_DARWIN}));
    p.nodes.push_back(rnd_node(r, {GLUE_BARE, GLUE_LEGACY, GLUE_DARWIN}));
    if (r.chance(0.3)) p.nodes.push_back(rnd_node(r, {GLUE_BARE, GLUE_LEGACY}));
    if (r.chance(0.1)) p.nodes.push_back(rnd_node(r, {GLUE_BARE}));
    if (r.chance(0.001)) { // three interfaces; the one created first then receives 65 5xx frames (16-bit lookup or frame counters), the others hold sessions
        p.family = 9;
        p.nodes.resize(2);
        p.nodes.push_back(rnd_node(r, {GLUE_BARE}));
        for (auto &n : p.nodes) { n.glue = GLUE_BARE; n.proc_us = 0; }
        auto on = [](Op o, int node) { o.only = node; return o; };
        uint16_t g = rnd_gen(r);
        auto disc = [&](int sid, int node) { Op o = mk(OP_DISCOVER, (uint32_t)r.range(1, 10), {sid, -1, 0, g, rnd_seq(r), 1, 2, -1}); o.blob = {(uint8_t)node}; return on(o, node); };
        for (int node = 0; node < 3; node++) p.ops.push_back(disc(node, node));
        for (int node = 1; node < 3; node++) p.ops.push_back(on(mk(OP_PROBE, 5, {1500 + node, 1500 + node, wire::W_PROBE, 100 + node, 100 + node, 0, 0, 0}), node));
        { Op h = mk(OP_HELLO, 5, {5, rnd_gen(r), 0, r.pickl({65534, 65535, 65536, 65537}), 0, 1}); h.only = 0; p.ops.push_back(h); } // foreign Hellos on interface 0
        for (int node = 1; node < 3; node++) { p.ops.push_back(disc(3 + node, node)); p.ops.push_back(on(mk(OP_QUERY, 10, {node, -1, node, rnd_seq(r), 3}), node)); }
        p.tail_ms = 100;
        return p;
    }
    if (r.chance(0.04)) { // one interface is re-created again and again (each time under a fresh context pointer, each time receiving a frame) while another one holds a session
        p.family = 8;
        p.nodes.resize(2);
        for (auto &n : p.nodes) n.glue = GLUE_BARE;
        auto on = [](Op o, int node) { o.only = node; return o; };
        uint16_t g = rnd_gen(r);
        auto disc = [&](int sid, int node) { Op o = mk(OP_DISCOVER, (uint32_t)r.range(1, 10), {sid, -1, 0, g, rnd_seq(r), 1, 2, -1}); o.blob = {(uint8_t)node}; return on(o, node); };
        p.ops.push_back(disc(0, 0));
        p.ops.push_back(on(mk(OP_PROBE, 5, {1500, 1500, wire::W_PROBE, 100, 100, 0, 0, 0}), 0));
        p.ops.push_back(on(mk(OP_QLT, 5, {0, -1, 0, rnd_seq(r), 0x0E, 0, 0}), 0));
        int64_t K = r.pickl({15, 16, 17, 31, 32, 33, 63, 64, 65, 66, 127, 128, 129, 200});
        if (r.chance(0.2)) K = r.pickl({255, 256, 257, 1023, 1024, 1025, 4095, 4096, 4097, 5000}); // a container host: thousands of short-lived interfaces during one session
        for (int64_t k = 0; k < K; k++) {
            p.ops.push_back(on(mk(OP_ATTR, (uint32_t)r.range(1, 5), {1, 0, 0x80000, 0}), 1));
            p.ops.push_back(disc(1 + (int)r.below(2), 1));
        }
        p.ops.push_back(disc(3, 0));                                                      // another mapper knocks on interface 0: must stay unanswered
        p.ops.push_back(on(mk(OP_QUERY, 10, {0, -1, 0, rnd_seq(r), 3}), 0));                // the session's mapper asks for the observation
        p.ops.push_back(on(mk(OP_QLT, 10, {0, -1, 0, rnd_seq(r), 0x0E, 0, 0}), 0));
        p.ops.push_back(on(mk(OP_RESET, 10, {0, -1, 0, 0, 0, 0}), 0));
        p.tail_ms = 100;
        return p;
    }
    if (r.chance(0.06)) p.nodes[r.below(p.nodes.size())].null_ctx = true; // one interface is served under a NULL context pointer
    else if (r.chance(0.06)) p.nodes[1 + r.below(p.nodes.size() - 1)].ctx_alias = (int)r.range(1, 3); // context pointers a multiple of 4 GiB apart
    Mix m;
    m.raw = 1; m.stray = 2; m.stall = 0; m.flood = 2; m.fetch = 2;
    int nops = (int)r.range(2, 50);
    bool faulty = r.chance(0.4);
    for (int i = 0; i < nops; i++) {
        Plan one = p;
        int node = (int)r.below(p.nodes.size());
        // build the op against a single-node view so that every argument refers to `node`
        one.nodes = {p.nodes[node]};
        Op o = rnd_lan_op(r, one, m, 4, node % 4);
        // retarget node arguments
        switch (o.kind) {
        case OP_EMIT: case OP_QUERY: case OP_QLT: case OP_FETCH: case OP_CHARGE: case OP_FLOOD: o.a[2] = node; break;
        case OP_PROBE: if (o.a[3] == 100) o.a[3] = 100 + node; if (o.a[4] == 100) o.a[4] = 100 + node; o.a[7] = 0;
            if (r.chance(0.12)) { int64_t nn = (int64_t)p.nodes.size(), sib = 100 + (node + 1 + (int64_t)r.below((uint64_t)nn - 1)) % nn; if (r.chance(0.5)) o.a[0] = sib; if (r.chance(0.7)) o.a[1] = sib; } // sent by a sibling interface of this very host
            break;
        case OP_RESET: o.a[4] = node; break;
        case OP_DISCOVER: // the history must not depend on what the other segment did: explicit station list
            o.a[5] = r.chance(0.2) ? 2 : 1; o.a[6] = r.range(0, 6); o.a[7] = r.chance(0.5) ? -1 : r.range(0, 6); o.blob = {(uint8_t)node}; break;
        case OP_STRAY: if (o.a[3] >= 0) o.a[3] = node; break;
        case OP_TICK: o.a[0] = node; break;
        case OP_RAW: o.a[0] = node; break;
        case OP_HELLO: o.a[5] = node + 1; if (o.a[3] > 1) o.a[4] = 0; break;
        default: break;
        }
        if (o.kind == OP_FLOOD && r.chance(0.15)) { o.a[0] = r.range(1000, 1100); o.a[1] = 20000 + 2000 * node; } // enough observations on one interface to reach any process-wide limit
        if (i < 2 && r.chance(0.5)) o.dt = 0; // first frames back to back
        if (faulty) { // faults hit one interface's frame: network faults, or a platform fault while that frame is handled; the other interfaces must not notice
            add_net_faults(r, o, 0.12, p.nodes[node].mtu);
            if (r.chance(0.06)) { Fault f; f.kind = r.chance(0.6) ? F_ALLOCFAIL : (r.chance(0.5) ? F_SENDFAIL : F_GETFAIL); f.a = f.kind == F_ALLOCFAIL ? r.range(1, 3) : (f.kind == F_SENDFAIL ? r.pickl({1, 2, 3, 0xFFFF}) : (int64_t)(r.next() & G_ALL)); f.b = 1; o.f.push_back(f); }
        }
        o.only = node; // every frame of this op reaches `node` only
        p.ops.push_back(o);
    }
    return p;
}

static Plan gen_C19(uint64_t seed, Rng &r, const std::string &tier) {
    Plan p = base_plan("C19", seed, r);
    NodeCfg n = rnd_node(r, {GLUE_BARE, GLUE_LEGACY, GLUE_DARWIN});
    p.nodes.push_back(n);
    p.family = (int)r.below(3);
    if (r.chance(0.03)) { // another interface of the host is re-created 200..300 times (fresh context pointer, first frame each time) while this one holds observations and a cached icon
        p.family = 7;
        p.nodes.resize(1);
        p.nodes.push_back(rnd_node(r, {GLUE_BARE}));
        for (auto &nd : p.nodes) nd.glue = GLUE_BARE;
        auto on = [](Op o, int node) { o.only = node; return o; };
        p.ops.clear();
        p.ops.push_back(on(mk(OP_DISCOVER, 5, {0, -1, 0, rnd_gen(r), rnd_seq(r), 2, 0, -1}), 0));
        p.ops.push_back(mk(OP_FLOOD, 5, {r.range(1, 40), 70000, 0, 0, 0}));
        p.ops.push_back(on(mk(OP_QLT, 5, {0, -1, 0, rnd_seq(r), 0x0E, 0, 0}), 0));
        int64_t K = r.pickl({127, 128, 254, 255, 256, 257, 300});
        for (int64_t k = 0; k < K; k++) {
            p.ops.push_back(on(mk(OP_ATTR, (uint32_t)r.range(1, 3), {1, 0, 0x80000, 0}), 1));
            p.ops.push_back(on(mk(OP_DISCOVER, 1, {1, -1, 0, rnd_gen(r), rnd_seq(r), 2, 0, -1}), 1));
        }
        p.ops.push_back(mk(OP_FLOOD, 5, {r.range(1, 5), 71000, 0, 0, 0}));
        p.ops.push_back(on(mk(OP_QUERY, 5, {0, -1, 0, rnd_seq(r), 3}), 0));
        p.ops.push_back(on(mk(OP_RESET, 5, {0, -1, 0, 0, 0, 0}), 0));
        p.tail_ms = 100;
        return p;
    }
    if (p.family != 0 && r.chance(0.35)) { int extra = (int)r.range(1, 3); for (int i = 0; i < extra; i++) p.nodes.push_back(rnd_node(r, {GLUE_BARE, GLUE_LEGACY})); } // several interface contexts in one process
    int mapper = 0;
    p.ops.push_back(mk(OP_DISCOVER, 5, {mapper, -1, 0, rnd_gen(r), rnd_seq(r), 0, 0, 0}));
    if (p.family == 0 && r.chance(0.12)) { // the record is full; again and again a Query's answer is refused by the link and fresh sources keep arriving: the bound is the bound
        p.family = 9;
        p.nodes[0].proc_us = 0;
        int64_t base = 10000;
        p.ops.push_back(mk(OP_FLOOD, 5, {r.pickl({1024, 1030, 1100}), base, 0, 0, 0})); base += 1100;
        int rounds = (int)r.range(8, 40);
        for (int k = 0; k < rounds; k++) {
            Op q = mk(OP_QUERY, (uint32_t)r.range(2, 20), {mapper, -1, 0, rnd_seq(r), 0});
            if (r.chance(0.85)) { Fault f; f.kind = F_SENDFAIL; f.a = 1; q.f.push_back(f); }
            p.ops.push_back(q);
            int64_t c = r.range(60, 500);
            p.ops.push_back(mk(OP_FLOOD, (uint32_t)r.range(0, 20), {c, base, 0, 0, 0})); base += c;
        }
        if (r.chance(0.5)) p.ops.push_back(mk(OP_RESET, 10, {mapper, -1, 0, 0, 0, 0}));
        return p;
    }
    if (p.family == 0) { // flood of pairwise distinct sources, no Query
        int64_t total = tier == "thorough" ? (r.chance(0.3) ? 100000 : r.range(2000, 30000)) : (r.chance(0.2) ? 20000 : r.range(500, 6000));
        int64_t base = 10000;
        // 0: every frame has its own source; +1: one real source for all (the mapper, ourselves, a neighbour of ours), distinct Ethernet sources; -1: the reverse
        int fixed_src = r.chance(0.25) ? (r.chance(0.7) ? 1 : -1) : 0;
        int64_t fixed_id = r.chance(0.5) ? -2 /* station 0 = the mapper */ : r.pickl({100, 300, 301, 1, 7777});
        while (total > 0) {
            int64_t c = std::min(total, r.range(100, 5000));
            { Op fl = mk(OP_FLOOD, (uint32_t)r.range(0, 50), {c, base, 0, 0, 0});
              if (fixed_src) fl.a[fixed_src > 0 ? 5 : 6] = fixed_id;
              p.ops.push_back(fl); }
            base += c; total -= c;
            if (r.chance(0.1)) p.ops.push_back(op_discover(r, mapper, 0));
        }
        if (r.chance(0.5)) p.ops.push_back(mk(OP_RESET, 10, {mapper, -1, 0, 0, 0, 0}));
    } else { // mixed request types, repeated sessions
        Mix m;
        m.flood = 6; m.fetch = 4; m.qlt = 6; m.raw = 2; m.stray = 2; m.reset = 4; m.attr = 1;
        int nops = (int)r.range(10, p.family == 1 ? 80 : 300);
        for (int i = 0; i < nops; i++) {
            Op o = rnd_lan_op(r, p, m, 4, mapper);
            add_net_faults(r, o, 0.1, n.mtu);
            if (p.family == 2 && r.chance(0.08)) { Fault f; f.kind = r.chance(0.6) ? F_ALLOCFAIL : F_SENDFAIL; f.a = r.range(1, 4); o.f.push_back(f); }
            p.ops.push_back(o);
        }
        p.ops.push_back(mk(OP_RESET, 10, {mapper, -1, 0, 0, 0, 0}));
    }
    return p;
}

Plan generate_plan(const std::string &prop, uint64_t seed, const std::string &tier) {
    // `seed` = mix(VERIF_SEED, property, run index); the run index is also needed for stratified families
    Rng r(seed);
    uint64_t index = seed; // callers pass the raw run index through generate_plan_indexed for stratified families
    (void)index; (void)tier;
    if (prop == "C01") return gen_C01(seed, r);
    if (prop == "C02") return gen_C02(seed, r);
    if (prop == "C03") return gen_C03(seed, r);
    if (prop == "C04") return gen_C04(seed, r);
    if (prop == "C06") return gen_C06(seed, r);
    if (prop == "C07") return gen_C07(seed, r);
    if (prop == "C08") return gen_C08(seed, r);
    if (prop == "C09") return gen_C09(seed, r);
    if (prop == "C10") return gen_C10(seed, r);
    if (prop == "C11") return gen_C11(seed, r);
    if (prop == "C12") return gen_C12(seed, r);
    if (prop == "C13") return gen_C13(seed, r);
    if (prop == "C16") return gen_C16(seed, r);
    if (prop == "C17") return gen_C17(seed, r);
    if (prop == "C19") return gen_C19(seed, r, tier);
    Plan p = base_plan(prop, seed, r);
    p.nodes.push_back(rnd_node(r, {GLUE_BARE}));
    return p;
}
Plan generate_plan_indexed(const std::string &prop, uint64_t verif_seed, uint64_t index, const std::string &tier) {
    uint64_t ph = 0;
    for (char c : prop) ph = ph * 131 + (uint8_t)c;
    uint64_t seed = mix64(mix64(verif_seed, ph), index);
    Rng r(seed);
    if (prop == "C05") { if (index < 2 * 65536 || !r.chance(0.12)) return gen_C05(seed, r, index); }
    if (prop == "C14") return gen_C14(seed, r, index);
    if (prop == "C15") return gen_C15(seed, r, index);
    // Swarm across properties: one run in eight of a frame-level property borrows the history of a sibling property's generator
    // (its own oracles stay on), so that no oracle only ever sees the histories written with it in mind.
    static const char *LAN[] = {"C01", "C02", "C03", "C04", "C06", "C07", "C08", "C09", "C10", "C11", "C12", "C19"};
    bool lan = prop == "C05";
    for (auto q : LAN) if (prop == q) lan = true;
    if (lan && r.chance(0.12)) {
        std::string sib = LAN[r.below(sizeof(LAN) / sizeof(LAN[0]))];
        if (sib != prop) {
            Plan p = generate_plan(sib, mix64(seed, 0x51B), tier);
            if (!p.api_world && p.ops.size() < 400) {
                p.prop = prop; p.family = 50; p.seed = seed;
                for (auto &n : p.nodes) { if (n.mtu < 576) n.mtu = 576; if (n.mtu > 9216) n.mtu = 9216; } // only C06 is stated for links outside [576, 9216]
                for (auto &o : p.ops) if (o.kind == OP_ATTR && (o.a[2] & 0x80000)) o.a[2] &= ~(int64_t)0x80000; // hot-plug (a new context = a new interface for the core) stays with the generators written for it
                if (p.nodes.size() > 8) return generate_plan(prop, seed, tier);
                p.twin = prop == "C09";
                if (prop != "C09" && prop != "C19" && prop != "C01" && prop != "C02") for (auto &o : p.ops) { std::vector<Fault> keep; for (auto &f : o.f) if (!fault_is_internal(f.kind)) keep.push_back(f); o.f = keep; }
                return p;
            }
        }
    }
    Plan p = prop == "C05" ? gen_C05(seed, r, index) : generate_plan(prop, seed, tier);
    // Width sweep: one request of the history repeated N times in a row (fresh sequence number each time), N around the values at
    // which an 8- or 16-bit count of requests, openers, responses or allocations would wrap.
    if ((lan || prop == "C17") && !p.api_world && !p.ops.empty() && p.ops.size() < 200) {
        Rng q(mix64(seed, 0x51DE));
        if (q.chance(0.015)) {
            size_t j = (size_t)q.below(p.ops.size());
            int k0 = p.ops[j].kind;
            if (k0 == OP_DISCOVER || k0 == OP_EMIT || k0 == OP_QUERY || k0 == OP_QLT || k0 == OP_CHARGE || k0 == OP_HELLO || k0 == OP_PROBE || k0 == OP_RESET || k0 == OP_STRAY) {
                int64_t N = q.pickl({127, 128, 129, 255, 256, 257, 300});
                // 16-bit widths only for requests that cost one delivery each (no pauses, no continuation loops, no bursts)
                bool cheap = k0 == OP_DISCOVER || k0 == OP_CHARGE || k0 == OP_RESET || k0 == OP_PROBE || k0 == OP_STRAY || k0 == OP_QLT || (k0 == OP_QUERY && p.ops[j].a[4] == 0) || (k0 == OP_HELLO && p.ops[j].a[3] <= 1);
                if (tier == "thorough" && cheap && p.nodes.size() <= 2 && q.chance(0.1)) N = q.pickl({32767, 32768, 65535, 65536, 65537});
                if (k0 == OP_EMIT && p.ops[j].blob.size() > 14 * 4) N = std::min<int64_t>(N, 300);
                std::vector<Op> rep;
                for (int64_t k = 1; k < N; k++) {
                    Op c = p.ops[j];
                    c.dt = (uint32_t)q.range(1, 4);
                    c.f.clear();
                    int sf = k0 == OP_DISCOVER || k0 == OP_STRAY ? 4 : (k0 == OP_EMIT || k0 == OP_QUERY || k0 == OP_QLT || k0 == OP_CHARGE ? 3 : -1);
                    if (sf >= 0 && c.a[sf] != 0) { c.a[sf] = (c.a[sf] + k) & 0xFFFF; if (c.a[sf] == 0) c.a[sf] = 1; }
                    rep.push_back(c);
                }
                p.ops.insert(p.ops.begin() + (long)j + 1, rep.begin(), rep.end());
                p.family = p.family * 100 + 60; // marks the sweep in the evidence's family histogram
            }
        }
    }
    return p;
}
