/* glue.c -- compiled against the repository working tree on every check.
 *
 * Contains:
 *   - the three per-port receive-loop bodies ("glues"):
 *       BARE    parseFrame only
 *       LEGACY  transcription of the loop body shared by linux-embedded,
 *               freebsd, esxi, beos, sunos, win32
 *               (os/linux/daemon/linux-embedded-main.c:lltdLoop)
 *       DARWIN  transcription of os/darwin/daemon/darwin-main.c:lltdLoop
 *               frame branch + timeout branch, and of sendHelloMessage /
 *               sendHelloMessageEx (that file only compiles on macOS)
 *   - a side context running the REAL os/esp32/daemon/lltd_esp32.c
 *   - thin wrappers over the public automata API for the walk drivers
 *   - views of the public fields for the oracles
 *
 * The classifier and the tick are the real ones: this file and the core are
 * built WITHOUT -DLLTD_TESTING. */
#include <stdlib.h>
#include <string.h>

#include "lltdAutomata.h"
#include "lltdBlock.h"
#include "lltdEndian.h"
#include "lltdPort.h"
#include "lltdTlvOps.h"
#include "lltdWire.h"
#include "os/esp32/daemon/lltd_esp32.h"

#include "simapi.h"

/* trees before the classifier learnt the received length (used only when validating fix commits against their parents) */
#ifdef GLUE_CLASSIFIER_NO_LEN
#define DSE(frame, len, table, mac) derive_session_event((frame), (table), (mac))
#else
#define DSE(frame, len, table, mac) derive_session_event((frame), (len), (table), (mac))
#endif

struct glue_node {
    int   kind;
    void *iface_ctx;
    int   side_classifier;
    /* fields of darwin's network_interface_t that the flow touches */
    uint8_t  macAddress[6];
    uint8_t  MapperHwAddress[6];
    uint16_t MapperGenerationTopology;
    uint16_t MapperGenerationQuick;
    uint64_t LastHelloTxMs;
    automata      *mappingAutomata;
    automata      *sessionAutomata;
    automata      *enumerationAutomata;
    session_table *sessionTable;
    int   last_sess_event;
    int   have_esp;
    lltd_esp32_ctx_t esp;
};

static void free_automata(automata *autom) {
    if (!autom) return;
    lltd_port_free(autom->extra);
    lltd_port_free(autom);
}

glue_node *glue_create(int kind, void *iface_ctx, const uint8_t mac[6], int with_esp32, int side_classifier) {
    glue_node *n = (glue_node *)calloc(1, sizeof(*n));
    if (!n) return NULL;
    n->kind = kind;
    n->iface_ctx = iface_ctx;
    n->side_classifier = side_classifier;
    memcpy(n->macAddress, mac, 6);
    n->last_sess_event = -99;
    if (kind == GLUE_LEGACY) {
        /* linux-embedded-main.c:main */
        n->mappingAutomata = init_automata_mapping();
        n->sessionAutomata = init_automata_session();
    } else if (kind == GLUE_DARWIN) {
        /* darwin-main.c:949-952 */
        n->mappingAutomata = init_automata_mapping();
        n->sessionAutomata = init_automata_session();
        n->enumerationAutomata = init_automata_enumeration();
        n->sessionTable = session_table_create();
    }
    if (with_esp32) {
        lltd_esp32_init(&n->esp);
        n->have_esp = 1;
    }
    return n;
}

int glue_usable(glue_node *n) {
    if (!n) return 0;
    if (n->kind == GLUE_LEGACY && (!n->mappingAutomata || !n->sessionAutomata)) return 0;
    /* the Darwin daemon checks none of its constructors; it survives a missing session table (every table function and the tick accept
     * NULL), so such an interface keeps being served here too - a missing automaton would be dereferenced by the daemon's own code */
    if (n->kind == GLUE_DARWIN && (!n->mappingAutomata || !n->sessionAutomata || !n->enumerationAutomata ||
                                   !n->mappingAutomata->extra || !n->enumerationAutomata->extra))
        return 0;
    if (n->have_esp && (!n->esp.mapping || !n->esp.session || !n->esp.enumeration)) return 0;
    return 1;
}

void glue_destroy(glue_node *n) {
    if (!n) return;
    free_automata(n->mappingAutomata);
    free_automata(n->sessionAutomata);
    free_automata(n->enumerationAutomata);
    session_table_destroy(n->sessionTable);
    if (n->have_esp) {
        free_automata(n->esp.mapping);
        free_automata(n->esp.session);
        free_automata(n->esp.enumeration);
    }
    free(n);
}

/* ---- Darwin: sendHelloMessage -> sendHelloMessageEx (darwin-main.c:37-171) ---- */
static void darwin_sendHelloMessage(void *networkInterface) {
    glue_node *n = (glue_node *)networkInterface;
    uint32_t mtu = sim_iface_mtu(n->iface_ctx);
    uint8_t *buffer = (uint8_t *)calloc(1, mtu);
    if (!buffer) return;
    size_t offset = 0;
    offset = setLltdHeader((void *)buffer,
                           (ethernet_address_t *)&(n->macAddress),
                           (ethernet_address_t *)&EthernetBroadcast,
                           0,
                           opcode_hello,
                           tos_discovery);
    offset += setHelloHeader((void *)buffer, offset,
                             (ethernet_address_t *)(uintptr_t)n->MapperHwAddress,
                             (ethernet_address_t *)(uintptr_t)n->MapperHwAddress,
                             n->MapperGenerationTopology);
    void *ctx = n->iface_ctx;
    offset += setHostIdTLV(buffer, offset, ctx);
    offset += setCharacteristicsTLV(buffer, offset, ctx);
    offset += setPhysicalMediumTLV(buffer, offset, ctx);
    offset += setIPv4TLV(buffer, offset, ctx);
    offset += setIPv6TLV(buffer, offset, ctx);
    offset += setPerfCounterTLV(buffer, offset);
    offset += setLinkSpeedTLV(buffer, offset, ctx);
    offset += setHostnameTLV(buffer, offset);
    if (sim_iface_is_wifi(ctx)) {
        offset += setWirelessTLV(buffer, offset, ctx);
        offset += setBSSIDTLV(buffer, offset, ctx);
        offset += setSSIDTLV(buffer, offset, ctx);
        offset += setWifiMaxRateTLV(buffer, offset, ctx);
        offset += setWifiRssiTLV(buffer, offset, ctx);
        offset += setAPAssociationTableTLV(buffer, offset, ctx);
        offset += setRepeaterAPLineageTLV(buffer, offset, ctx);
        offset += setRepeaterAPTableTLV(buffer, offset, ctx);
    }
    offset += setQosCharacteristicsTLV(buffer, offset);
    offset += setIconImageTLV(buffer, offset);
    offset += setFriendlyNameTLV(buffer, offset);
    offset += setEndOfPropertyTLV(buffer, offset);
    sim_periodic_hello(ctx, buffer, offset);
    free(buffer);
}

static void darwin_tick(glue_node *n) {
    lltd_automata_tick_port tick_port;
    tick_port.network_interface = n;
    tick_port.last_hello_tx_ms = &n->LastHelloTxMs;
    tick_port.send_hello = darwin_sendHelloMessage;
    sim_glue_phase(1);
    automata_tick(n->mappingAutomata, n->enumerationAutomata, n->sessionTable, &tick_port);
    sim_glue_phase(0);
}

/* ---- Darwin: frame branch of lltdLoop (darwin-main.c:283-405) ---- */
static void darwin_rx(glue_node *n, void *recvBuffer, size_t recvLen) {
    (void)recvLen;
    lltd_demultiplex_header_t *header = (lltd_demultiplex_header_t *)recvBuffer;

    int sess_event = DSE(recvBuffer, recvLen, n->sessionTable, n->macAddress);
    n->last_sess_event = sess_event;

    if (header->opcode == opcode_discover) {
        lltd_discover_upper_header_t *disc_header = (lltd_discover_upper_header_t *)(header + 1);
        uint16_t generation = lltd_ntohs(disc_header->generation);
        session_entry *entry = session_table_add(n->sessionTable, header->realSource.a, generation,
                                                 lltd_ntohs(header->seqNumber));
        if (entry) {
            entry->state = (uint8_t)sess_event;
            entry->last_activity_ts = lltd_monotonic_seconds();
            if (sess_event == sess_discover_acking || sess_event == sess_discover_acking_chgd_xid) {
                entry->complete = true;
            }
            memcpy(n->MapperHwAddress, header->realSource.a, 6);
            if (header->tos == tos_quick_discovery) {
                n->MapperGenerationQuick = generation;
            } else {
                n->MapperGenerationTopology = generation;
            }
        } else {
            sim_probe(PROBE_DARWIN_DISCOVER_ADD_FAILED);
        }
        session_table_update_complete_status(n->sessionTable);
    } else if (header->opcode == opcode_reset) {
        session_table_clear(n->sessionTable);
    }

    uint8_t prev_mapping_state = n->mappingAutomata->current_state;
    switch_state_mapping(n->mappingAutomata, header->opcode, "rx");
    if (prev_mapping_state != 0 && n->mappingAutomata->current_state == 0) {
        sim_probe(PROBE_DARWIN_TABLE_CLEARED_ON_QUIESCENT);
        session_table_clear(n->sessionTable);
    }
    if (n->mappingAutomata->extra) {
        mapping_reset_inactive_timeout((mapping_state *)n->mappingAutomata->extra);
    }
    if (header->opcode == opcode_charge && n->mappingAutomata->extra) {
        mapping_on_charge((mapping_state *)n->mappingAutomata->extra);
    }
    if (sess_event >= 0) {
        switch_state_session(n->sessionAutomata, sess_event, "rx");
    }
    if (header->opcode == opcode_hello) {
        if (n->enumerationAutomata->extra) {
            band_on_hello_received((band_state *)n->enumerationAutomata->extra);
        }
        switch_state_enumeration(n->enumerationAutomata, enum_hello, "rx");
    } else if (header->opcode == opcode_discover) {
        if (n->enumerationAutomata->current_state == 0) {
            if (n->enumerationAutomata->extra) {
                band_init_stats((band_state *)n->enumerationAutomata->extra);
                band_choose_hello_time((band_state *)n->enumerationAutomata->extra);
            }
        } else if (n->enumerationAutomata->extra) {
            ((band_state *)n->enumerationAutomata->extra)->begun = true;
        }
        switch_state_enumeration(n->enumerationAutomata, enum_new_session, "rx");
    }

    parseFrame(recvBuffer, n->iface_ctx);

    darwin_tick(n);
}

void glue_rx(glue_node *n, void *buf, size_t len) {
    n->last_sess_event = -99;
    switch (n->kind) {
    case GLUE_BARE:
        if (n->side_classifier) {
            n->last_sess_event = DSE(buf, len, NULL, n->macAddress);
        }
        parseFrame(buf, n->iface_ctx);
        break;
    case GLUE_LEGACY: {
        /* linux-embedded-main.c:lltdLoop */
        lltd_demultiplex_header_t *header = (lltd_demultiplex_header_t *)buf;
        if (n->side_classifier) {
            n->last_sess_event = DSE(buf, len, NULL, n->macAddress);
        }
        switch_state_mapping(n->mappingAutomata, header->opcode, "rx");
        switch_state_session(n->sessionAutomata, header->opcode, "rx");
        parseFrame(buf, n->iface_ctx);
        break;
    }
    case GLUE_DARWIN:
        darwin_rx(n, buf, len);
        break;
    default:
        break;
    }
}

void glue_set_mac(glue_node *n, const uint8_t mac[6]) { memcpy(n->macAddress, mac, 6); }

void glue_esp32_rx(glue_node *n, const void *exact_copy, size_t len) {
    if (n->have_esp) {
        lltd_esp32_handle_frame(&n->esp, exact_copy, len);
    }
}

void glue_tick(glue_node *n) {
    if (n->kind == GLUE_DARWIN) {
        darwin_tick(n);
    }
}

void glue_view_get(glue_node *n, glue_view *v) {
    memset(v, 0, sizeof(*v));
    v->last_sess_event = n->last_sess_event;
    v->last_hello_tx_ms = n->LastHelloTxMs;
    v->esp_mapping_state = v->esp_session_state = v->esp_enum_state = -1;
    if (n->mappingAutomata) {
        v->have_mapping = 1;
        v->mapping_state = n->mappingAutomata->current_state;
        v->mapping_last_ts = n->mappingAutomata->last_ts;
        for (int i = 0; i < 3; i++) v->mapping_timeout[i] = n->mappingAutomata->states_table[i].timeout;
        if (n->mappingAutomata->extra) {
            mapping_state *m = (mapping_state *)n->mappingAutomata->extra;
            v->have_mstate = 1;
            v->ctc = m->ctc;
            v->charge_ts = m->charge_timeout_ts;
            v->inactive_ts = m->inactive_timeout_ts;
        }
    }
    if (n->sessionAutomata) {
        v->have_session = 1;
        v->session_state = n->sessionAutomata->current_state;
        v->session_last_ts = n->sessionAutomata->last_ts;
        for (int i = 0; i < 4; i++) v->session_timeout[i] = n->sessionAutomata->states_table[i].timeout;
    }
    if (n->enumerationAutomata) {
        v->have_enum = 1;
        v->enum_state = n->enumerationAutomata->current_state;
        if (n->enumerationAutomata->extra) {
            band_state *b = (band_state *)n->enumerationAutomata->extra;
            v->have_band = 1;
            v->band_Ni = b->Ni;
            v->band_r = b->r;
            v->band_begun = b->begun ? 1 : 0;
            v->band_hello_ts = b->hello_timeout_ts;
            v->band_block_ts = b->block_timeout_ts;
        }
    }
    if (n->sessionTable) {
        v->have_table = 1;
        v->table_count = n->sessionTable->count;
        v->table_all_complete = n->sessionTable->all_complete ? 1 : 0;
        v->table_is_empty_fn = session_table_is_empty(n->sessionTable) ? 1 : 0;
        v->table_all_complete_fn = session_table_all_complete(n->sessionTable) ? 1 : 0;
        for (int i = 0; i < SESSION_TABLE_MAX_ENTRIES && i < 16; i++) {
            session_entry *e = &n->sessionTable->entries[i];
            memcpy(v->ent[i].mac, e->mapper_mac, 6);
            v->ent[i].gen = e->generation;
            v->ent[i].seq = e->seq_number;
            v->ent[i].state = e->state;
            v->ent[i].complete = e->complete ? 1 : 0;
            v->ent[i].valid = e->valid ? 1 : 0;
            v->ent[i].last_ts = e->last_activity_ts;
            v->ent[i].created_ts = e->created_ts;
        }
    }
    if (n->have_esp) {
        if (n->esp.mapping) v->esp_mapping_state = n->esp.mapping->current_state;
        if (n->esp.session) v->esp_session_state = n->esp.session->current_state;
        if (n->esp.enumeration) v->esp_enum_state = n->esp.enumeration->current_state;
    }
}

/* ---- API wrappers ---- */
void glue_api_mapping_switch(glue_node *n, int input) { switch_state_mapping(n->mappingAutomata, input, "api"); }
void glue_api_session_switch(glue_node *n, int input) { switch_state_session(n->sessionAutomata, input, "api"); }
void glue_api_enum_switch(glue_node *n, int input) { switch_state_enumeration(n->enumerationAutomata, input, "api"); }

static int slot_of(glue_node *n, session_entry *e) {
    if (!e) return -1;
    return (int)(e - &n->sessionTable->entries[0]);
}
int glue_api_table_add(glue_node *n, const uint8_t mac[6], uint16_t gen, uint16_t seq) {
    return slot_of(n, session_table_add(n->sessionTable, mac, gen, seq));
}
int glue_api_table_find(glue_node *n, const uint8_t mac[6], uint16_t gen, uint16_t seq) {
    return slot_of(n, session_table_find(n->sessionTable, mac, gen, seq));
}
void glue_api_table_remove(glue_node *n, const uint8_t mac[6], uint16_t gen) {
    session_table_remove(n->sessionTable, mac, gen);
}
void glue_api_table_clear(glue_node *n) { session_table_clear(n->sessionTable); }
void glue_api_table_set_complete(glue_node *n, int slot, int complete) {
    if (slot >= 0 && slot < SESSION_TABLE_MAX_ENTRIES) {
        n->sessionTable->entries[slot].complete = complete ? true : false;
    }
    session_table_update_complete_status(n->sessionTable);
}
void glue_api_band_hello_heard(glue_node *n) { band_on_hello_received((band_state *)n->enumerationAutomata->extra); }
void glue_api_band_set_r(glue_node *n, uint32_t r) {
    band_state *b = (band_state *)n->enumerationAutomata->extra;
    /* equivalent to r calls of band_on_hello_received from r = 0 */
    b->r = r;
    if (r >= BAND_GAMMA && !b->begun) b->begun = true;
}
void glue_api_band_set(glue_node *n, uint32_t Ni, int begun) {
    band_state *b = (band_state *)n->enumerationAutomata->extra;
    b->Ni = Ni;
    b->begun = begun ? true : false;
}
void glue_api_band_init(glue_node *n) { band_init_stats((band_state *)n->enumerationAutomata->extra); }
void glue_api_band_update_stats(glue_node *n) { band_update_stats((band_state *)n->enumerationAutomata->extra); }
uint64_t glue_api_band_choose(glue_node *n) { return band_choose_hello_time((band_state *)n->enumerationAutomata->extra); }
void glue_api_discover_bookkeeping(glue_node *n) {
    if (n->enumerationAutomata->current_state == 0) {
        if (n->enumerationAutomata->extra) {
            band_init_stats((band_state *)n->enumerationAutomata->extra);
            band_choose_hello_time((band_state *)n->enumerationAutomata->extra);
        }
    } else if (n->enumerationAutomata->extra) {
        ((band_state *)n->enumerationAutomata->extra)->begun = true;
    }
    switch_state_enumeration(n->enumerationAutomata, enum_new_session, "rx");
}
void glue_api_mapping_charge(glue_node *n) { mapping_on_charge((mapping_state *)n->mappingAutomata->extra); }
void glue_api_mapping_reset_inactive(glue_node *n) {
    mapping_reset_inactive_timeout((mapping_state *)n->mappingAutomata->extra);
}
void glue_api_mapping_set_last_ts(glue_node *n, uint64_t ts) { n->mappingAutomata->last_ts = ts; }
void glue_api_session_set(glue_node *n, int state, uint64_t last_ts) {
    n->sessionAutomata->current_state = (uint8_t)state;
    n->sessionAutomata->last_ts = last_ts;
}
void glue_api_mapping_set(glue_node *n, int state, uint64_t last_ts) {
    n->mappingAutomata->current_state = (uint8_t)state;
    n->mappingAutomata->last_ts = last_ts;
}
int glue_api_classify(glue_node *n, const void *frame, size_t len) {
    (void)len;
    return DSE(frame, len, n->sessionTable, n->macAddress);
}

int glue_ctor_probe(int which) {
    switch (which) {
    case 0: { automata *a = init_automata_mapping(); if (!a) return 0; free_automata(a); return 1; }
    case 1: { automata *a = init_automata_enumeration(); if (!a) return 0; free_automata(a); return 1; }
    case 2: { automata *a = init_automata_session(); if (!a) return 0; free_automata(a); return 1; }
    case 3: { session_table *t = session_table_create(); if (!t) return 0; session_table_destroy(t); return 1; }
    default: return 0;
    }
}

const char *glue_transcription_note(void) {
    return "darwin glue transcribes os/darwin/daemon/darwin-main.c:37-171,264-405; legacy glue transcribes "
           "os/linux/daemon/linux-embedded-main.c:lltdLoop";
}
