// world.cc -- verification port (lltdPort.h), discrete-event executor, plan text I/O.
#include "sim.hh"

#include <cstdarg>
#include <sstream>
#if __has_include(<valgrind/memcheck.h>)
#include <valgrind/memcheck.h>
#else
#define RUNNING_ON_VALGRIND 0
#define VALGRIND_MAKE_MEM_UNDEFINED(a, n) 0
#define VALGRIND_MAKE_MEM_DEFINED(a, n) 0
#define VALGRIND_CHECK_MEM_IS_DEFINED(a, n) 0
#endif

struct ethernet_address_t { uint8_t a[6]; }; // layout-compatible with lltdProtocol.h (C linkage, 6 bytes)

static World *g_w = nullptr;

// ============================================================ util
std::string hex(const uint8_t *p, size_t n) {
    static const char *d = "0123456789abcdef";
    std::string s;
    s.reserve(n * 2);
    for (size_t i = 0; i < n; i++) { s.push_back(d[p[i] >> 4]); s.push_back(d[p[i] & 15]); }
    return s;
}
Bytes unhex(const std::string &s) {
    Bytes b;
    auto v = [](char c) -> int { return c >= '0' && c <= '9' ? c - '0' : c >= 'a' && c <= 'f' ? c - 'a' + 10 : c >= 'A' && c <= 'F' ? c - 'A' + 10 : 0; };
    for (size_t i = 0; i + 1 < s.size(); i += 2) b.push_back((uint8_t)(v(s[i]) * 16 + v(s[i + 1])));
    return b;
}

static const char *OPN[OP_KIND_MAX] = {};
static void init_names() {
    static bool done = false;
    if (done) return;
    done = true;
    OPN[OP_DISCOVER] = "DISCOVER"; OPN[OP_EMIT] = "EMIT"; OPN[OP_PROBE] = "PROBE"; OPN[OP_FLOOD] = "FLOOD"; OPN[OP_QUERY] = "QUERY";
    OPN[OP_QLT] = "QLT"; OPN[OP_FETCH] = "FETCH"; OPN[OP_RESET] = "RESET"; OPN[OP_CHARGE] = "CHARGE"; OPN[OP_HELLO] = "HELLO";
    OPN[OP_RAW] = "RAW"; OPN[OP_STRAY] = "STRAY"; OPN[OP_TICK] = "TICK"; OPN[OP_STALL] = "STALL"; OPN[OP_ATTR] = "ATTR";
    OPN[OP_PARTITION] = "PARTITION"; OPN[OP_CTOR] = "CTOR";
    OPN[OP_A_ADV] = "A_ADV"; OPN[OP_A_TICK] = "A_TICK"; OPN[OP_A_MAP] = "A_MAP"; OPN[OP_A_SESS] = "A_SESS"; OPN[OP_A_ENUM] = "A_ENUM";
    OPN[OP_A_TADD] = "A_TADD"; OPN[OP_A_TFIND] = "A_TFIND"; OPN[OP_A_TREM] = "A_TREM"; OPN[OP_A_TCLR] = "A_TCLR"; OPN[OP_A_TCOMPL] = "A_TCOMPL";
    OPN[OP_A_HEARD] = "A_HEARD"; OPN[OP_A_DISCBOOK] = "A_DISCBOOK"; OPN[OP_A_CHARGE] = "A_CHARGE"; OPN[OP_A_INACT] = "A_INACT";
    OPN[OP_A_SETR] = "A_SETR"; OPN[OP_A_BANDSET] = "A_BANDSET"; OPN[OP_A_SETMAP] = "A_SETMAP"; OPN[OP_A_SETSESS] = "A_SETSESS";
    OPN[OP_A_BLOCKEND] = "A_BLOCKEND"; OPN[OP_A_REINIT] = "A_REINIT";
}
const char *op_name(int k) { init_names(); return (k >= 0 && k < OP_KIND_MAX && OPN[k]) ? OPN[k] : "?"; }
int op_kind_from_name(const std::string &s) { init_names(); for (int i = 0; i < OP_KIND_MAX; i++) if (OPN[i] && s == OPN[i]) return i; return -1; }
static const char *FN[F_KIND_MAX] = {"DROP", "DUP", "DELAY", "TRUNC", "PAD", "SETB", "XORB", "COUNT", "ALLOCFAIL", "SENDFAIL", "GETFAIL", "TAILMAC"};
const char *fault_name(int k) { return (k >= 0 && k < F_KIND_MAX) ? FN[k] : "?"; }
int fault_kind_from_name(const std::string &s) { for (int i = 0; i < F_KIND_MAX; i++) if (s == FN[i]) return i; return -1; }

// ============================================================ attributes
static uint32_t boundary32(Rng &r) {
    static const uint32_t B[] = {0, 1, 6, 6, 71, 24, 53, 0x7F, 0x80, 0xFF, 0x100, 0x7FFF, 0x8000, 0xFFFF, 0x10000, 0x7FFFFF, 0x800000, 0xFFFFFF,
                                 0x1000000, 0x7FFFFFFF, 0x80000000u, 0xFFFFFFFFu, 0x000000FF, 0x0000FF00, 0x00FF0000, 0xFF000000u,
                                 0x01020304, 100000, 1000000, 10000000};
    switch (r.below(3)) {
    case 0: return B[r.below(sizeof(B) / sizeof(B[0]))];
    case 1: return (uint32_t)r.next();
    default: return (uint32_t)(1u << r.below(32)) + (uint32_t)r.range(-1, 1);
    }
}
static uint16_t boundary16(Rng &r) {
    static const uint16_t B[] = {0, 1, 0x7F, 0x80, 0xFF, 0x100, 0x7FFF, 0x8000, 0xFFFF, 0x00FF, 0xFF00, 0x0800, 0x2000, 0x0102};
    return r.chance(0.5) ? B[r.below(sizeof(B) / sizeof(B[0]))] : (uint16_t)r.next();
}
static Bytes rbytes(Rng &r, size_t n, bool printable) {
    Bytes b(n);
    for (auto &c : b) c = printable ? (uint8_t)r.range(0x21, 0x7e) : (uint8_t)r.range(1, 255);
    return b;
}
static void gen_field(Attr &a, Rng &r, uint32_t bit) {
    switch (bit) {
    case G_MAC:
        for (auto &c : a.mac.a) c = (uint8_t)r.next();
        // keep the address universe disjoint: stations 0x02.., synthetic 0x06.., broadcast excluded
        if (a.mac.a[0] == 0x02 || a.mac.a[0] == 0x06 || a.mac.a[0] == 0xFF) a.mac.a[0] = 0x0A;
        break;
    case G_IFTYPE: a.iftype = boundary32(r); break;
    case G_IPV4: a.ipv4 = boundary32(r); break;
    case G_IPV6:
        for (auto &c : a.ipv6) c = r.chance(0.2) ? 0 : (uint8_t)r.next();
        if (r.chance(0.5)) { // the address families a host really has: link-local (also with a zone id embedded), ULA, v4-mapped, loopback, documentation
            switch (r.below(8)) {
            case 0: memset(a.ipv6, 0, 8); a.ipv6[0] = 0xfe; a.ipv6[1] = 0x80; break;                                   // fe80::iid
            case 1: memset(a.ipv6, 0, 8); a.ipv6[0] = 0xfe; a.ipv6[1] = 0x80; a.ipv6[2] = (uint8_t)r.next(); a.ipv6[3] = (uint8_t)(r.next() | 1); break; // fe80:XXXX::iid
            case 2: a.ipv6[0] = 0xfe; a.ipv6[1] = (uint8_t)(0x80 | (r.next() & 0x3f)); break;
            case 3: a.ipv6[0] = 0xfd; break;
            case 4: memset(a.ipv6, 0, 10); a.ipv6[10] = a.ipv6[11] = 0xff; break;                                       // ::ffff:a.b.c.d
            case 5: memset(a.ipv6, 0, 16); a.ipv6[15] = (uint8_t)r.below(2); break;                                     // :: and ::1
            case 6: a.ipv6[0] = 0x20; a.ipv6[1] = 0x01; a.ipv6[2] = 0x0d; a.ipv6[3] = 0xb8; break;
            default: a.ipv6[0] = 0xff; a.ipv6[1] = 0x02; break;
            }
        }
        break;
    case G_SPEED: a.speed = boundary32(r); break;
    case G_HOSTNAME: a.hostname = rbytes(r, r.chance(0.3) ? (size_t)r.pickl({0, 1, 31, 32, 33, 40}) : r.below(41), true); a.hostname_ret_full = r.chance(0.3); break;
    case G_WIFIMODE: a.wifimode = (uint8_t)r.pickl({0, 1, 2, 0x7F, 0x80, 0xFF}); break;
    case G_BSSID:
        for (auto &c : a.bssid) c = (uint8_t)r.next();
        if (r.chance(0.25)) { // not associated / broadcast / sparse addresses
            switch (r.below(5)) {
            case 0: memset(a.bssid, 0, 6); break;
            case 1: memset(a.bssid, 0xFF, 6); break;
            case 2: memset(a.bssid, 0, 6); a.bssid[5] = 1; break;
            case 3: memset(a.bssid, 0, 6); a.bssid[0] = (uint8_t)r.next(); break;
            default: memset(a.bssid, 0, 5); break;
            }
        }
        break;
    case G_SSID: a.ssid = rbytes(r, r.chance(0.3) ? (size_t)r.pickl({0, 1, 31, 32, 33, 40}) : r.below(41), false); a.ssid_ret_full = r.chance(0.3); break;
    case G_RATE: a.rate = boundary16(r); break;
    case G_RSSI: a.rssi = (int8_t)(r.chance(0.3) ? r.pickl({-128, -127, -1, 0, 1, 127, -50}) : r.range(-128, 127)); break;
    case G_PHY: a.phy = boundary32(r); break;
    case G_ICON: {
        size_t n;
        switch (r.below(6)) {
        case 0: n = (size_t)r.pickl({0, 1, 2, 255, 256, 257}); break;
        case 1: n = r.below(600); break;
        case 2: { size_t P = (size_t)r.pickl({542, 1466, 1246, 8966}); n = P * (size_t)r.range(1, 3) + (size_t)r.range(-1, 1); break; }
        case 3: n = (size_t)r.pickl({32766, 32767, 32768, 32769, 40000, 65535, 65536, 70000}); break;
        default: n = r.below(12000); break;
        }
        a.icon.resize(n);
        for (size_t i = 0; i < n; i++) a.icon[i] = (uint8_t)(r.next() >> 13);
        a.icon_avail = !r.chance(0.1);
        break;
    }
    case G_FNAME: {
        size_t n = r.chance(0.3) ? (size_t)r.pickl({0, 2, 64, 200, 254, 255, 256, 257, 300}) : r.below(201);
        a.fname = rbytes(r, n, false);
        a.fname_avail = !r.chance(0.1);
        break;
    }
    case G_HWID: {
        size_t n = (size_t)r.range(0, 32) * 2; // UCS-2 code units, no embedded NUL unit
        a.hwid.resize(n);
        bool wide = r.chance(0.3); // identifiers outside Latin-1: code units such as U+0100, U+3000, U+4E00 have a zero LOW byte
        for (size_t i = 0; i + 1 < n; i += 2) {
            a.hwid[i] = (uint8_t)r.range(0x21, 0x7e); a.hwid[i + 1] = r.chance(0.8) ? 0 : (uint8_t)r.range(1, 255);
            if (wide && r.chance(0.3)) { a.hwid[i] = 0; a.hwid[i + 1] = (uint8_t)r.range(1, 255); }
        }
        break;
    }
    default: break;
    }
}
Attr make_attr(uint64_t seed, bool wifi) {
    Attr a;
    Rng r(mix64(seed, 0xA77B));
    a.wifi = wifi;
    a.flags = boundary16(r);
    for (uint32_t bit = 1; bit <= G_PHY; bit <<= 1) gen_field(a, r, bit);
    // content with a meaning to somebody: byte-order marks and file signatures at the start of the large properties (drawn outside
    // the main stream so that the other attributes of a seed stay what they were)
    static const std::vector<Bytes> MAGIC = {{0xFF, 0xFE}, {0xFE, 0xFF}, {0xEF, 0xBB, 0xBF}, {0x00, 0x00}, {0x89, 0x50, 0x4E, 0x47}, {0x42, 0x4D}, {0x00, 0x00, 0x01, 0x00}, {0xFF, 0xD8, 0xFF}, {0xFF, 0xFE, 0x00, 0x00}, {0xFF}, {0xFF, 0xFF}};
    auto stamp = [&](Bytes &b, uint64_t salt, size_t unit) {
        uint64_t x = mix64(seed, salt);
        if (x % 10 != 0) return;
        const Bytes &m = MAGIC[(x >> 8) % MAGIC.size()];
        if (unit == 2 && m.size() % 2) return;
        if ((x >> 20) & 1) { for (size_t i = 0; i < m.size() && i < b.size(); i++) b[i] = m[i]; } // overwrite the start (size unchanged)
        else if (unit == 1) b.insert(b.begin(), m.begin(), m.end());                                 // or prepend
        if (((x >> 24) & 7) == 0) b = m;                                                              // or the property is the mark alone
        if (((x >> 28) & 3) == 0 && unit == 1) { static const std::vector<Bytes> TAIL = {{0x00, 0x00}, {0x00}, {0x00, 0x00, 0x00, 0x00}, {0xFF, 0xFE}, {0x0D, 0x0A}, {0x20}, {0x2E}}; const Bytes &t = TAIL[(x >> 32) % TAIL.size()]; b.insert(b.end(), t.begin(), t.end()); } // terminators / separators at the END of a property are platform bytes too
    };
    stamp(a.fname, 0xF1A6, 1); stamp(a.icon, 0x1C01, 1); stamp(a.hwid, 0x4D1D, 2);
    return a;
}
void attr_mutate(Attr &a, uint64_t seed, uint32_t fieldmask) {
    Rng r(mix64(seed, 0xA77C));
    Mac keep = a.mac;
    for (uint32_t bit = 1; bit <= G_PHY; bit <<= 1)
        if (fieldmask & bit) gen_field(a, r, bit);
    if (fieldmask & 0x10000) a.flags = boundary16(r);
    a.mac = keep; // identity of a node never changes mid-run
}

Mac api_key_mac(int k) {
    int id = k / 3;
    Mac m = {{0x02, 0xAA, 0x00, 0x00, (uint8_t)(id >> 8), (uint8_t)id}};
    // every fifth mapper is an "anagram" of its predecessor: the same three 16-bit words in another order (equal word sums, word
    // differences that cancel under XOR) - what a folded or hashed address comparison would confuse; ids 10..13 carry the difference
    // in two words with equal deltas
    if (id % 5 == 4) { int p = id - 1; m = Mac{{(uint8_t)(p >> 8), (uint8_t)p, 0x02, 0xAA, 0x00, 0x00}}; if (id % 10 == 9) m = Mac{{0x00, 0x00, (uint8_t)(p >> 8), (uint8_t)p, 0x02, 0xAA}}; }
    return m;
}

// ============================================================ plan text
std::string op_to_text(const Op &o) {
    std::ostringstream s;
    s << "op " << op_name(o.kind) << " dt=" << o.dt;
    if (o.only >= 0) s << " only=" << o.only;
    s << " a=";
    for (int i = 0; i < 8; i++) s << (i ? "," : "") << o.a[i];
    if (!o.blob.empty()) s << " blob=" << hex(o.blob.data(), o.blob.size());
    if (!o.f.empty()) {
        s << " f=";
        for (size_t i = 0; i < o.f.size(); i++) s << (i ? ";" : "") << fault_name(o.f[i].kind) << ":" << o.f[i].a << ":" << o.f[i].b;
    }
    return s.str();
}
std::string plan_to_text(const Plan &p) {
    std::ostringstream s;
    s << "plan v1\n";
    s << "prop " << p.prop << "\nfamily " << p.family << "\nseed " << p.seed << "\nt0 " << p.t0 << "\nmac_seed " << p.mac_seed
      << "\nmemfill " << (int)p.memfill << "\nmemfill_seed " << p.memfill_seed << "\nlatency " << p.latency << "\ntail_ms " << p.tail_ms
      << "\napi_world " << (p.api_world ? 1 : 0) << "\ntwin " << (p.twin ? 1 : 0) << "\nauto_tick " << (p.auto_tick ? 1 : 0) << "\nisolate " << (p.isolate ? 1 : 0) << "\n";
    s << "expect_class " << (p.expect_class.empty() ? "-" : p.expect_class) << "\nexpect_hash " << p.expect_hash << "\n";
    if (!p.abi.empty()) s << "abi " << p.abi << "\n";
    if (p.call_us) s << "call_us " << p.call_us << "\n";
    for (auto &n : p.nodes)
        s << "node glue=" << n.glue << " mtu=" << n.mtu << " attr_seed=" << n.attr_seed << " wifi=" << (n.wifi ? 1 : 0) << " failmask=" << n.failmask
          << " esp32=" << (n.side_esp32 ? 1 : 0) << " classifier=" << (n.side_classifier ? 1 : 0) << " rxfill=" << (int)n.rxfill
          << " proc_us=" << n.proc_us << " tick_jitter=" << n.tick_jitter << (n.null_ctx ? " nullctx=1" : "") << (n.ctx_alias ? " ctxalias=" + std::to_string(n.ctx_alias) : std::string()) << "\n";
    for (auto &o : p.ops) s << op_to_text(o) << "\n";
    s << "end\n";
    return s.str();
}
static std::map<std::string, std::string> kvs(std::istringstream &ls) {
    std::map<std::string, std::string> m;
    std::string tok;
    while (ls >> tok) {
        auto e = tok.find('=');
        if (e != std::string::npos) m[tok.substr(0, e)] = tok.substr(e + 1);
    }
    return m;
}
bool plan_from_text(const std::string &text, Plan &p, std::string &err) {
    std::istringstream in(text);
    std::string line;
    p = Plan();
    p.nodes.clear();
    bool ended = false;
    while (std::getline(in, line)) {
        if (line.empty() || line[0] == '#') continue;
        std::istringstream ls(line);
        std::string key;
        ls >> key;
        if (key == "plan") continue;
        if (key == "end") { ended = true; break; }
        if (key == "prop") ls >> p.prop;
        else if (key == "family") ls >> p.family;
        else if (key == "seed") ls >> p.seed;
        else if (key == "t0") ls >> p.t0;
        else if (key == "mac_seed") ls >> p.mac_seed;
        else if (key == "memfill") { int v; ls >> v; p.memfill = (uint8_t)v; }
        else if (key == "memfill_seed") ls >> p.memfill_seed;
        else if (key == "latency") ls >> p.latency;
        else if (key == "tail_ms") ls >> p.tail_ms;
        else if (key == "api_world") { int v; ls >> v; p.api_world = v != 0; }
        else if (key == "twin") { int v; ls >> v; p.twin = v != 0; }
        else if (key == "auto_tick") { int v; ls >> v; p.auto_tick = v != 0; }
        else if (key == "isolate") { int v; ls >> v; p.isolate = v != 0; }
        else if (key == "expect_class") { ls >> p.expect_class; if (p.expect_class == "-") p.expect_class.clear(); }
        else if (key == "expect_hash") ls >> p.expect_hash;
        else if (key == "abi") ls >> p.abi;
        else if (key == "call_us") ls >> p.call_us;
        else if (key == "node") {
            auto m = kvs(ls);
            NodeCfg n;
            n.glue = atoi(m["glue"].c_str()); n.mtu = (uint32_t)strtoul(m["mtu"].c_str(), 0, 10);
            n.attr_seed = strtoull(m["attr_seed"].c_str(), 0, 10); n.wifi = m["wifi"] == "1";
            n.failmask = (uint32_t)strtoul(m["failmask"].c_str(), 0, 10); n.side_esp32 = m["esp32"] == "1";
            n.side_classifier = m["classifier"] == "1"; n.rxfill = (uint8_t)atoi(m["rxfill"].c_str());
            n.proc_us = (uint32_t)strtoul(m["proc_us"].c_str(), 0, 10); n.tick_jitter = (uint32_t)strtoul(m["tick_jitter"].c_str(), 0, 10); n.null_ctx = m.count("nullctx") && m["nullctx"] == "1"; n.ctx_alias = m.count("ctxalias") ? atoi(m["ctxalias"].c_str()) : 0;
            p.nodes.push_back(n);
        } else if (key == "op") {
            std::string name;
            ls >> name;
            Op o;
            o.kind = op_kind_from_name(name);
            if (o.kind < 0) { err = "unknown op " + name; return false; }
            auto m = kvs(ls);
            o.dt = (uint32_t)strtoul(m["dt"].c_str(), 0, 10);
            if (m.count("only")) o.only = atoi(m["only"].c_str());
            {
                std::istringstream as(m["a"]);
                std::string t;
                int i = 0;
                while (std::getline(as, t, ',') && i < 8) o.a[i++] = strtoll(t.c_str(), 0, 10);
            }
            if (m.count("blob")) o.blob = unhex(m["blob"]);
            if (m.count("f")) {
                std::istringstream fs(m["f"]);
                std::string t;
                while (std::getline(fs, t, ';')) {
                    std::istringstream one(t);
                    std::string k, a, b;
                    std::getline(one, k, ':'); std::getline(one, a, ':'); std::getline(one, b, ':');
                    Fault f;
                    f.kind = fault_kind_from_name(k);
                    if (f.kind < 0) { err = "unknown fault " + k; return false; }
                    f.a = strtoll(a.c_str(), 0, 10); f.b = strtoll(b.c_str(), 0, 10);
                    o.f.push_back(f);
                }
            }
            p.ops.push_back(o);
        } else { err = "unknown line: " + line; return false; }
    }
    if (!ended) { err = "missing end"; return false; }
    if (p.nodes.empty()) { err = "no nodes"; return false; }
    return true;
}

// ============================================================ port (lltdPort.h)
static Node *node_of_ctx(void *ctx) {
    if (!g_w) return nullptr;
    for (auto &n : g_w->nodes) if (n->owns_ctx(ctx)) return n.get();
    return nullptr;
}
static inline bool getter_fails(Node *n, uint32_t bit) {
    return ((n->attr.failmask | n->cfg.failmask | n->dyn_failmask | g_w->getfail_mask) & bit) != 0;
}
// how a port says "failed": the API only fixes 0 = success; ports return -1, an errno value, or some other non-zero code (per interface)
static inline int fail_rc(const Node *n) { static const int RC[] = {-1, -1, -1, 1, 107, -22, 0x7FFFFFFF, (int)0x80000000}; return RC[(n->cfg.attr_seed >> 7) % 8]; }
static inline void note_getfail(uint32_t bit) {
    if (g_w->getfail_mask & bit) { g_w->st.fault_fired[F_GETFAIL]++; if (g_w->curd) g_w->curd->get_fault_fired = true; }
}

static void *ledger_alloc(size_t size, int tag) {
    World &w = *g_w;
    w.alloc_index++;
    w.total_allocs++;
    if (w.allocfail_k > 0 && (int64_t)w.alloc_index >= w.allocfail_k && (int64_t)w.alloc_index < w.allocfail_k + w.allocfail_n) {
        w.st.fault_fired[F_ALLOCFAIL]++;
        if (w.curd) w.curd->alloc_fault_fired = true;
        w.log.u64(0xA110CFA1ull);
        return nullptr;
    }
    uint8_t *p = (uint8_t *)malloc(size ? size : 1);
    if (!p) abort();
    if (w.plan.memfill == 0xFE) { for (size_t i = 0; i < size; i++) p[i] = (uint8_t)(w.aux.next() >> 24); }
    else memset(p, w.plan.memfill, size);
    // under valgrind (plain flavour) fresh memory is *undefined*: memcheck then tracks, bit-precisely and through the stack as well,
    // whether anything that reaches the wire was never written (C02 determinism clause)
    (void)VALGRIND_MAKE_MEM_UNDEFINED(p, size);
    LedgerRec r;
    r.size = size; r.birth_delivery = w.curd ? w.curd->id : 0; r.tag = tag;
    r.node = -1;
    if (w.cur) for (size_t i = 0; i < w.nodes.size(); i++) if (w.nodes[i].get() == w.cur) r.node = (int)i;
    w.ledger[p] = r;
    w.live_bytes += size; w.live_count++;
    if (tag != 1 && r.node >= 0) {
        if (w.node_live_count.size() <= (size_t)r.node) { w.node_live_count.resize(r.node + 1, 0); w.node_live_bytes.resize(r.node + 1, 0); w.node_icon_bytes.resize(r.node + 1, 0); }
        w.node_live_count[r.node]++; w.node_live_bytes[r.node] += size;
        if (tag == 2) w.node_icon_bytes[r.node] += size;
        if (w.curd) { w.curd->born_live++; if (tag == 2) w.curd->born_live_icon++; if (tag == 3) w.curd->born_live_fname++; }
    }
    if (w.live_bytes > w.hw_bytes) w.hw_bytes = w.live_bytes;
    w.log.u64(0xA110C000ull + size);
    if (w.curd) w.curd->calls.push_back({2, w.port_now_ms(), (int64_t)size});
    return p;
}

extern "C" {
uint64_t lltd_port_monotonic_seconds(void) { return g_w ? g_w->port_now_ms() / 1000 : 0; }
uint64_t lltd_port_monotonic_milliseconds(void) { return g_w ? g_w->port_now_ms() : 0; }
void *lltd_port_malloc(size_t size) { return ledger_alloc(size, g_w->ledger_tag); }
void lltd_port_free(void *ptr) {
    if (!ptr) return;
    World &w = *g_w;
    auto it = w.ledger.find(ptr);
    if (it == w.ledger.end()) {
        w.violate("C01", "bad-free", "lltd_port_free of a pointer that is not a live allocation (double free or foreign pointer)");
        return;
    }
    w.live_bytes -= it->second.size; w.live_count--;
    {
        const LedgerRec &r = it->second;
        if (r.tag != 1 && r.node >= 0 && (size_t)r.node < w.node_live_count.size()) {
            w.node_live_count[r.node]--; w.node_live_bytes[r.node] -= r.size;
            if (r.tag == 2) w.node_icon_bytes[r.node] -= r.size;
            if (w.curd && r.birth_delivery == w.curd->id && r.node == w.curd->node) { w.curd->born_live--; if (r.tag == 2) w.curd->born_live_icon--; if (r.tag == 3) w.curd->born_live_fname--; }
        }
    }
    w.log.u64(0xF4EE0000ull + it->second.size);
    if (w.curd) w.curd->calls.push_back({3, w.port_now_ms(), (int64_t)it->second.size});
    w.ledger.erase(it);
    free(ptr);
}
void *lltd_port_memset(void *ptr, int value, size_t num) { return memset(ptr, value, num); }
void *lltd_port_memcpy(void *d, const void *s, size_t n) { return memcpy(d, s, n); }
int lltd_port_memcmp(const void *a, const void *b, size_t n) { return memcmp(a, b, n); }
void lltd_port_sleep_ms(uint32_t ms) {
    World &w = *g_w;
    w.sleep_accum += ms;
    w.log.u64(0x51EE0000ull + ms);
    if (w.curd) w.curd->calls.push_back({0, w.port_now_ms(), (int64_t)ms});
}
int lltd_port_send_frame(void *iface_ctx, const void *frame, size_t frame_len) {
    World &w = *g_w;
    Node *n = node_of_ctx(iface_ctx);
    TxRec tx;
    tx.node = -1;
    for (size_t i = 0; i < w.nodes.size(); i++) if (w.nodes[i].get() == n) tx.node = (int)i;
    tx.t = w.port_now_ms(); tx.channel = 0; tx.in_tick = w.in_tick != 0;
    tx.data.resize(frame_len);
    if (frame_len) memcpy(tx.data.data(), frame, frame_len); // ASan checks the read of frame_len bytes
    if (RUNNING_ON_VALGRIND && frame_len) {
        unsigned long bad = VALGRIND_CHECK_MEM_IS_DEFINED(frame, frame_len);
        if (bad) {
            char b[160];
            snprintf(b, sizeof b, "transmitted frame (opcode %u, %zu bytes) carries bytes that were never written, first at offset %lu", frame_len > 17 ? ((const uint8_t *)frame)[17] : 0u, frame_len, bad - (unsigned long)(uintptr_t)frame);
            (void)VALGRIND_MAKE_MEM_DEFINED(tx.data.data(), frame_len);
            w.violate("C02", "uninitialised-bytes-on-wire", b);
        }
    }
    uint64_t idx = w.send_index++;
    tx.refused = idx < 64 && ((w.sendfail_mask >> idx) & 1);
    if (tx.refused) { w.st.fault_fired[F_SENDFAIL]++; if (w.curd) w.curd->send_fault_fired = true; }
    w.log.u64(0x5E4D0000ull + frame_len + (tx.refused ? 0x100000 : 0));
    w.log.bytes(tx.data.data(), tx.data.size());
    w.st.txs++;
    if (!n || (w.cur && n != w.cur)) w.violate("C17", "foreign-context-send", "frame sent on an interface context other than the one being served");
    if (w.curd) { w.curd->calls.push_back({1, tx.t, (int64_t)w.curd->txs.size()}); w.curd->txs.push_back(tx); }
    else if (w.curt) w.curt->txs.push_back(tx);
    return tx.refused ? -1 : 0;
}
int lltd_port_get_mtu(void *ctx, size_t *out) {
    Node *n = node_of_ctx(ctx);
    if (!n || !out) return -1;
    if (getter_fails(n, G_MTU)) {
        note_getfail(G_MTU);
        // how a port fails to tell the MTU: error with the out parameter untouched / zeroed / holding a small leftover, or "success" with 0
        // the error code is the port's business (-1, a positive errno, INT_MIN ...); the leftover can be anything, (size_t)-1 included (an ifr_mtu of -1 widened)
        int rc = fail_rc(n);
        bool wild = ((n->cfg.attr_seed >> 10) & 3) == 3;
        switch ((n->cfg.attr_seed >> 2) % 6) { case 1: *out = 0; return rc; case 2: *out = 0; return 0; case 3: *out = wild ? (size_t)-1 : 16; return rc; case 4: *out = wild ? ((size_t)-1 >> 1) : 9000; return rc; /* ioctl style: the (stale) field is copied out, then the error is returned */ case 5: *out = 65535; return rc; default: return rc; }
    }
    *out = n->cfg.mtu;
    return 0;
}
int lltd_port_get_icon_image(void **out_data, size_t *out_size) {
    Node *n = g_w->cur;
    if (!n || !out_data || !out_size) return -1;
    // a failing getter may leave its out parameters untouched, cleared, or half filled (size known, buffer not obtained)
    auto fail = [&]() { int style = (int)(n->cfg.attr_seed % 3); if (style == 1) { *out_data = nullptr; *out_size = 0; } else if (style == 2) { *out_data = nullptr; *out_size = n->attr.icon.size() ? n->attr.icon.size() : 77; } return -1; };
    if (getter_fails(n, G_ICON) || !n->attr.icon_avail) { note_getfail(G_ICON); return fail(); }
    void *p = ledger_alloc(n->attr.icon.size(), 2);
    if (!p) return fail();
    if (!n->attr.icon.empty()) memcpy(p, n->attr.icon.data(), n->attr.icon.size());
    *out_data = p; *out_size = n->attr.icon.size();
    return 0;
}
int lltd_port_get_friendly_name(void **out_data, size_t *out_size) {
    Node *n = g_w->cur;
    if (!n || !out_data || !out_size) return -1;
    auto fail = [&]() {
        int style = (int)(n->cfg.attr_seed % 4);
        if (style == 1) { *out_data = nullptr; *out_size = 0; }
        else if (style == 2) { *out_data = nullptr; *out_size = n->attr.fname.size() ? n->attr.fname.size() : 33; }
        else if (style == 3) { void *q = ledger_alloc(8, 3); if (q) lltd_port_free(q); *out_data = q; *out_size = 0; } // buf = malloc; ... fail: free(buf); return -1 - the pointer is left behind, dangling
        return -1;
    };
    if (getter_fails(n, G_FNAME) || !n->attr.fname_avail) { note_getfail(G_FNAME); return fail(); }
    void *p = ledger_alloc(n->attr.fname.size(), 3);
    if (!p) return fail();
    if (!n->attr.fname.empty()) memcpy(p, n->attr.fname.data(), n->attr.fname.size());
    *out_data = p; *out_size = n->attr.fname.size();
    return 0;
}
size_t lltd_port_get_hostname(void *dst, size_t dst_len) {
    Node *n = g_w->cur;
    if (!n || !dst || !dst_len) return 0;
    if (getter_fails(n, G_HOSTNAME)) { note_getfail(G_HOSTNAME); return 0; }
    size_t len = std::min(n->attr.hostname.size(), dst_len);
    if (len) memcpy(dst, n->attr.hostname.data(), len);
    if (((n->cfg.attr_seed >> 11) & 7) == 0) for (size_t i = len; i < dst_len; i++) ((uint8_t *)dst)[i] = (uint8_t)(0x41 + i % 26); // a fixed-size name field copied whole: the tail of an older, longer name follows the valid bytes
    return n->attr.hostname_ret_full ? n->attr.hostname.size() : len;
}
size_t lltd_port_get_support_url(void *dst, size_t dst_len) { (void)dst; (void)dst_len; return 0; }
int lltd_port_get_upnp_uuid(uint8_t out_uuid[16]) { (void)out_uuid; return -1; }
size_t lltd_port_get_hw_id(void *dst, size_t dst_len) {
    Node *n = g_w->cur;
    if (!n || !dst || !dst_len) return 0;
    if (getter_fails(n, G_HWID)) { note_getfail(G_HWID); return 0; }
    size_t len = std::min(n->attr.hwid.size(), dst_len);
    if (len) memcpy(dst, n->attr.hwid.data(), len);
    return len;
}
int lltd_port_get_mac_address(void *ctx, ethernet_address_t *out) {
    Node *n = node_of_ctx(ctx);
    if (!n || !out) return -1;
    if (getter_fails(n, G_MAC)) { note_getfail(G_MAC); return fail_rc(n); }
    memcpy(out, n->attr.mac.a, 6);
    return 0;
}
uint32_t lltd_port_get_characteristics_flags(void *ctx) { Node *n = node_of_ctx(ctx); return n ? n->attr.flags : 0; }
int lltd_port_get_if_type(void *ctx, uint32_t *out) {
    Node *n = node_of_ctx(ctx);
    if (!n || !out) return -1;
    if (getter_fails(n, G_IFTYPE)) { note_getfail(G_IFTYPE); return fail_rc(n); }
    *out = n->attr.iftype; return 0;
}
int lltd_port_get_ipv4_address(void *ctx, uint32_t *out) {
    Node *n = node_of_ctx(ctx);
    if (!n || !out) return -1;
    if (getter_fails(n, G_IPV4)) { note_getfail(G_IPV4); return fail_rc(n); }
    // stored as the four wire bytes, most significant first
    uint8_t b[4] = {(uint8_t)(n->attr.ipv4 >> 24), (uint8_t)(n->attr.ipv4 >> 16), (uint8_t)(n->attr.ipv4 >> 8), (uint8_t)n->attr.ipv4};
    memcpy(out, b, 4); return 0;
}
int lltd_port_get_ipv6_address(void *ctx, uint8_t out[16]) {
    Node *n = node_of_ctx(ctx);
    if (!n || !out) return -1;
    if (getter_fails(n, G_IPV6)) { note_getfail(G_IPV6); return fail_rc(n); }
    memcpy(out, n->attr.ipv6, 16); return 0;
}
int lltd_port_get_link_speed_100bps(void *ctx, uint32_t *out) {
    Node *n = node_of_ctx(ctx);
    if (!n || !out) return -1;
    if (getter_fails(n, G_SPEED)) { note_getfail(G_SPEED); return fail_rc(n); }
    *out = n->attr.speed; return 0;
}
int lltd_port_get_wifi_mode(void *ctx, uint8_t *out) {
    Node *n = node_of_ctx(ctx);
    if (!n || !out || !n->attr.wifi) return -1;
    if (getter_fails(n, G_WIFIMODE)) { note_getfail(G_WIFIMODE); return fail_rc(n); }
    *out = n->attr.wifimode; return 0;
}
int lltd_port_get_bssid(void *ctx, uint8_t out[6]) {
    Node *n = node_of_ctx(ctx);
    if (!n || !out || !n->attr.wifi) return -1;
    if (getter_fails(n, G_BSSID)) { note_getfail(G_BSSID); return fail_rc(n); }
    memcpy(out, n->attr.bssid, 6); return 0;
}
size_t lltd_port_get_ssid(void *ctx, void *dst, size_t dst_len) {
    Node *n = node_of_ctx(ctx);
    if (!n || !dst || !dst_len || !n->attr.wifi) return 0;
    if (getter_fails(n, G_SSID)) { note_getfail(G_SSID); return 0; }
    size_t len = std::min(n->attr.ssid.size(), dst_len);
    if (len) memcpy(dst, n->attr.ssid.data(), len);
    if (((n->cfg.attr_seed >> 14) & 7) == 0) for (size_t i = len; i < dst_len; i++) ((uint8_t *)dst)[i] = (uint8_t)(0x61 + i % 26); // the 32-byte ESSID field copied whole
    return n->attr.ssid_ret_full ? n->attr.ssid.size() : len;
}
int lltd_port_get_wifi_max_rate_0_5mbps(void *ctx, uint16_t *out) {
    Node *n = node_of_ctx(ctx);
    if (!n || !out || !n->attr.wifi) return -1;
    if (getter_fails(n, G_RATE)) { note_getfail(G_RATE); return fail_rc(n); }
    *out = n->attr.rate; return 0;
}
int lltd_port_get_wifi_rssi_dbm(void *ctx, int8_t *out) {
    Node *n = node_of_ctx(ctx);
    if (!n || !out || !n->attr.wifi) return -1;
    if (getter_fails(n, G_RSSI)) { note_getfail(G_RSSI); return fail_rc(n); }
    *out = n->attr.rssi; return 0;
}
int lltd_port_get_wifi_phy_medium(void *ctx, uint32_t *out) {
    Node *n = node_of_ctx(ctx);
    if (!n || !out || !n->attr.wifi) return -1;
    if (getter_fails(n, G_PHY)) { note_getfail(G_PHY); return fail_rc(n); }
    *out = n->attr.phy; return 0;
}
static char g_logbuf[2048];
// writing a log line takes time on a real port; in API walks (one core call per operation, clock read at its entry) a plan may charge it
static inline void log_cost() { if (g_w && g_w->plan.api_world && g_w->plan.call_us) { g_w->cost_us += g_w->plan.call_us; g_w->sleep_accum += g_w->cost_us / 1000; g_w->cost_us %= 1000; } }
void lltd_port_log_debug(const char *fmt, ...) { va_list ap; va_start(ap, fmt); vsnprintf(g_logbuf, sizeof g_logbuf, fmt, ap); va_end(ap); log_cost(); }
void lltd_port_log_warning(const char *fmt, ...) { va_list ap; va_start(ap, fmt); vsnprintf(g_logbuf, sizeof g_logbuf, fmt, ap); va_end(ap); log_cost(); }

// ---- simulator services for glue.c
void sim_periodic_hello(void *iface_ctx, const void *frame, size_t len) {
    World &w = *g_w;
    TxRec tx;
    tx.node = -1;
    for (size_t i = 0; i < w.nodes.size(); i++) if (w.nodes[i]->owns_ctx(iface_ctx)) tx.node = (int)i;
    tx.t = w.port_now_ms(); tx.channel = 1; tx.refused = false; tx.in_tick = w.in_tick != 0;
    tx.data.assign((const uint8_t *)frame, (const uint8_t *)frame + len);
    w.log.u64(0x9E110000ull + len);
    w.log.bytes(tx.data.data(), tx.data.size());
    w.st.txs++;
    if (w.curd) w.curd->txs.push_back(tx);
    else if (w.curt) w.curt->txs.push_back(tx);
}
void sim_probe(int code) { if (g_w && code >= 0 && code < PROBE_MAX) g_w->st.probes[code]++; }
uint32_t sim_iface_mtu(void *ctx) { Node *n = node_of_ctx(ctx); return n ? n->cfg.mtu : 1500; }
int sim_iface_is_wifi(void *ctx) { Node *n = node_of_ctx(ctx); return n && n->attr.wifi; }
void sim_glue_phase(int phase) { if (g_w) g_w->in_tick = phase; }
} // extern "C"

// ============================================================ stack scribbler
static __attribute__((noinline)) void scribble_stack(uint8_t pattern) {
    volatile uint8_t junk[6144];
    for (size_t i = 0; i < sizeof(junk); i++) junk[i] = pattern;
    __asm__ volatile("" ::: "memory");
}

static std::string describe_diff(const std::vector<const TxRec *> &a, const std::vector<const TxRec *> &b);

// ============================================================ world
World::World(const Plan &p) : plan(p), aux(mix64(p.memfill_seed, 77)) {
    g_w = this;
    now = plan.t0;
    handling_base = now;
}
World::~World() {
    for (auto &n : nodes) {
        if (n->glue) { cur = n.get(); glue_destroy(n->glue); n->glue = nullptr; }
        free(n->rxbuf);
        n->rxbuf = nullptr;
    }
    cur = nullptr;
    for (auto &kv : ledger) free(kv.first);
    ledger.clear();
    for (auto m : monitors) delete m;
    if (g_w == this) g_w = nullptr;
}
Mac World::station_mac(int sid) const {
    if ((plan.mac_seed & 31) == 1 && sid < 6) {
        // one plan in 32: the first six stations are anagrams of one another - the six orders of the same three 16-bit words
        uint64_t x = mix64(plan.mac_seed, 998);
        uint8_t w[3][2] = {{0x02, (uint8_t)(x >> 8)}, {(uint8_t)((x >> 16) & 0xFE), (uint8_t)(x >> 24)}, {(uint8_t)((x >> 32) & 0xFE), (uint8_t)((x >> 40) | 1)}};
        static const int P[6][3] = {{0, 1, 2}, {0, 2, 1}, {1, 0, 2}, {1, 2, 0}, {2, 0, 1}, {2, 1, 0}};
        Mac m;
        for (int i = 0; i < 3; i++) { m.a[2 * i] = w[P[sid][i]][0]; m.a[2 * i + 1] = w[P[sid][i]][1]; }
        return m;
    }
    if ((plan.mac_seed & 7) == 0) {
        // one plan in eight: the stations are near twins - identical except for ONE byte (position drawn per plan), so that an
        // identity comparison that skips or truncates any part of the address confuses them
        uint64_t x = mix64(plan.mac_seed, 999);
        Mac m = {{0x02, (uint8_t)(x >> 8), (uint8_t)(x >> 16), (uint8_t)(x >> 24), (uint8_t)(x >> 32), 0x40}};
        int pos = (int)((plan.mac_seed >> 3) % 6);
        if (pos == 0) m.a[0] = (uint8_t)(0x02 | ((sid & 0x3F) << 2)); else m.a[pos] = (uint8_t)(m.a[pos] ^ (uint8_t)(sid + 1));
        return m;
    }
    uint64_t x = mix64(plan.mac_seed, 1000 + (uint64_t)sid);
    Mac m = {{0x02, (uint8_t)(x >> 8), (uint8_t)(x >> 16), (uint8_t)(x >> 24), (uint8_t)(x >> 32), (uint8_t)sid}};
    return m;
}
Mac World::synth_mac(int64_t id) const {
    Mac m = {{0x06, 0x5e, (uint8_t)(id >> 24), (uint8_t)(id >> 16), (uint8_t)(id >> 8), (uint8_t)id}};
    return m;
}
void World::violate(const char *prop, const std::string &clause, const std::string &detail) {
    if (violations.size() < 8) violations.push_back({prop, clause, detail});
    vl(std::string("VIOLATION ") + prop + " " + clause + " :: " + detail);
}
size_t World::live_for_node(int node, uint64_t *bytes) const {
    size_t c = 0;
    uint64_t b = 0;
    for (auto &kv : ledger) if (kv.second.node == node && kv.second.tag != 1) { c++; b += kv.second.size; }
    if (bytes) *bytes = b;
    return c;
}
void World::at(uint64_t t, std::function<void()> fn) {
    Event e;
    e.t = t; e.seq = ++seq; e.type = 2; e.node = -1; e.gen = 0; e.op_index = -1; e.fn = std::move(fn);
    q.push(e);
}
int World::make_node(const NodeCfg &c, bool hidden, const Attr *same_interface_as) {
    std::unique_ptr<Node> n(new Node());
    n->cfg = c;
    n->attr = make_attr(c.attr_seed, c.wifi);
    n->attr.mac.a[5] = (uint8_t)((n->attr.mac.a[5] & 0xF0) | (nodes.size() & 0x0F));
    if (same_interface_as) n->attr = *same_interface_as; // a restarted twin: same interface, same address, same attributes
    n->hidden = hidden;
    n->rxbuf = (uint8_t *)malloc(c.mtu);
    memset(n->rxbuf, c.rxfill, c.mtu);
    int idx = (int)nodes.size();
    nodes.push_back(std::move(n));
    Node *np = nodes[idx].get();
    if (c.ctx_alias > 0 && !hidden && idx > 0) np->alias_ctx = (void *)((uintptr_t)nodes[0]->ctx() + ((uintptr_t)c.ctx_alias << 32)); // same low 32 bits as the first interface's context
    Node *save = cur;
    int savetag = ledger_tag;
    cur = np; ledger_tag = 1; handling_base = now; sleep_accum = 0;
    np->glue = glue_create(c.glue, np->ctx(), np->attr.mac.a, c.side_esp32 ? 1 : 0, c.side_classifier ? 1 : 0);
    np->usable = np->glue && glue_usable(np->glue);
    cur = save; ledger_tag = savetag;
    return idx;
}
void World::schedule_tick(int node) {
    Node &n = *nodes[node];
    if (!plan.auto_tick || n.cfg.glue != GLUE_DARWIN || n.hidden || !n.usable) return;
    n.tick_gen++;
    Event e;
    uint64_t base = std::max(now, n.busy_until);
    uint64_t jit = n.cfg.tick_jitter ? mix64(plan.seed ^ 0x71C4, n.tick_gen * 8 + (uint64_t)node) % (n.cfg.tick_jitter + 1) : 0;
    e.t = base + 100 + jit; e.seq = ++seq; e.type = 1; e.node = node; e.gen = n.tick_gen; e.op_index = -1;
    q.push(e);
}
void World::do_tick(int node) {
    Node &n = *nodes[node];
    if (n.cfg.glue != GLUE_DARWIN || !n.usable) return;
    TickRec tr;
    tr.node = node; tr.t = std::max(now, n.busy_until);
    cur = &n; curt = &tr; curd = nullptr;
    handling_base = tr.t; sleep_accum = 0; alloc_index = 0; send_index = 0; allocfail_k = 0; sendfail_mask = 0; getfail_mask = 0; ledger_tag = 0;
    glue_view_get(n.glue, &tr.before);
    glue_tick(n.glue);
    glue_view_get(n.glue, &tr.after);
    n.busy_until = handling_base + sleep_accum;
    curt = nullptr; cur = nullptr;
    st.ticks++;
    for (auto &tx : tr.txs) { txhash.u64(tx.data.size() | ((uint64_t)tx.channel << 41)); txhash.bytes(tx.data.data(), tx.data.size());
        node_txhash[node].u64(tx.data.size() | ((uint64_t)tx.channel << 41)); node_txhash[node].bytes(tx.data.data(), tx.data.size()); node_txcount[node]++; }
    log.u64(0x71C40000ull + node); log.u64(tr.t);
    for (auto &tx : tr.txs) if (tx.channel == 1) n.last_periodic_ms = tx.t;
    // C09: a twin that runs the same flow gets the same tick at the same instant; its periodic Hellos must match
    if (plan.twin && !n.hidden && n.twin >= 0 && n.twin_full) {
        Node &t = *nodes[n.twin];
        TickRec tt;
        tt.node = n.twin; tt.t = tr.t;
        cur = &t; curt = &tt; curd = nullptr;
        handling_base = tr.t; sleep_accum = 0; alloc_index = 0; send_index = 0; ledger_tag = 0;
        glue_tick(t.glue);
        curt = nullptr; cur = nullptr;
        std::vector<const TxRec *> pa, pb;
        for (auto &x : tr.txs) pa.push_back(&x);
        for (auto &x : tt.txs) pb.push_back(&x);
        if (!pa.empty() || !pb.empty()) note("twin_tick_compared_nonempty");
        std::string why = describe_diff(pa, pb);
        if (!why.empty()) violate(plan.prop == "C18" ? "C18" : "C09", "post-reset-differs", "after topology Reset, periodic tick: " + why);
    }
    for (auto m : monitors) m->on_tick(*this, tr);
    for (auto &tx : tr.txs) {
        for (auto m : monitors) m->on_station_rx(*this, tx);
        if (!tx.refused && !plan.isolate) put_on_wire(tx.data, -1, node, nullptr, -1);
    }
}

static void apply_frame_faults(Bytes &f, const Op *op, World &w, size_t mtu_hint) {
    if (!op) return;
    for (auto &ft : op->f) {
        switch (ft.kind) {
        case F_TRUNC: if ((size_t)ft.a < f.size()) { f.resize((size_t)ft.a); w.st.fault_fired[F_TRUNC]++; } break;
        case F_PAD: if ((size_t)ft.a > f.size()) { f.resize(std::min((size_t)ft.a, (size_t)65536), (uint8_t)ft.b); w.st.fault_fired[F_PAD]++; } break;
        case F_SETB: if ((size_t)ft.a < f.size()) { f[(size_t)ft.a] = (uint8_t)ft.b; w.st.fault_fired[F_SETB]++; } break;
        case F_XORB: if ((size_t)ft.a < f.size()) { f[(size_t)ft.a] ^= (uint8_t)ft.b; w.st.fault_fired[F_XORB]++; } break;
        case F_TAILMAC:
            if ((size_t)ft.b < w.nodes.size() && ft.a >= 1 && ft.a <= 6 && f.size() >= (size_t)ft.a) {
                const Mac &m = w.nodes[(size_t)ft.b]->attr.mac;
                for (int k = 0; k < ft.a; k++) f[f.size() - (size_t)ft.a + (size_t)k] = m.a[k];
                w.st.fault_fired[F_TAILMAC]++;
            }
            break;
        case F_COUNT:
            if (f.size() >= 36) {
                size_t off = (f[wire::OFF_OP] == wire::W_EMIT) ? 32 : 34;
                wire::put16(&f[off], (uint16_t)ft.a);
                w.st.fault_fired[F_COUNT]++;
            }
            break;
        default: break;
        }
    }
    (void)mtu_hint;
}

void World::put_on_wire(const Bytes &f0, int src_station, int src_node, const Op *op, int op_index, int only_node) {
    std::shared_ptr<Frame> fr(new Frame());
    fr->data = f0;
    fr->src_station = src_station; fr->src_node = src_node; fr->wire_id = ++wire_counter;
    apply_frame_faults(fr->data, op, *this, 0);
    uint64_t dropmask = 0, extra_delay = 0, dups = 0;
    bool drop = false;
    if (op) for (auto &ft : op->f) {
        if (ft.kind == F_DROP) { drop = true; dropmask = (uint64_t)ft.a; }
        if (ft.kind == F_DELAY) extra_delay += (uint64_t)ft.a;
        if (ft.kind == F_DUP) dups += (uint64_t)ft.a;
    }
    uint64_t tsend = now;
    if (src_node >= 0) tsend = std::max(now, nodes[src_node]->busy_until); // stamped with the sender's local time
    for (size_t i = 0; i < nodes.size(); i++) {
        Node &n = *nodes[i];
        if (n.hidden || (int)i == src_node || !n.usable) continue;
        if (only_node >= 0 && (int)i != only_node) continue;
        if (op && op->only >= 0 && (int)i != op->only) continue;
        if (drop && (dropmask == 0 || ((dropmask >> i) & 1))) { st.fault_fired[F_DROP]++; continue; }
        if (src_node < 0 && i < 8 && tsend < partition_until[i]) { note("partition_drop"); continue; }
        for (uint64_t c = 0; c <= dups; c++) {
            Event e;
            e.t = tsend + plan.latency + (c == 0 ? extra_delay : c);
            e.seq = ++seq; e.type = 0; e.node = (int)i; e.gen = 0; e.frame = fr; e.op_index = op_index;
            q.push(e);
            if (c > 0) st.fault_fired[F_DUP]++;
            if (c == 0 && extra_delay) st.fault_fired[F_DELAY]++;
        }
    }
}

// describe how two transmit lists differ (C09/C18 twin comparison)
static std::string describe_diff(const std::vector<const TxRec *> &a, const std::vector<const TxRec *> &b) {
    if (a.size() != b.size()) return "responder sent " + std::to_string(a.size()) + " frame(s), freshly started twin sent " + std::to_string(b.size());
    for (size_t i = 0; i < a.size(); i++) {
        const Bytes &x = a[i]->data, &y = b[i]->data;
        if (x == y && a[i]->channel == b[i]->channel) continue;
        if (x.size() == y.size() && x.size() >= 46 && x[wire::OFF_OP] == wire::W_HELLO && a[i]->channel == 1 && b[i]->channel == 1) {
            bool only_gen = true;
            for (size_t k = 0; k < x.size(); k++) if (x[k] != y[k] && k != 32 && k != 33) only_gen = false;
            if (only_gen) { char t[160]; snprintf(t, sizeof t, "periodic Hello differs from the fresh twin's only in the generation field (0x%04x left over vs 0x%04x)", wire::be16(&x[32]), wire::be16(&y[32])); return t; }
        }
        size_t k = 0;
        while (k < x.size() && k < y.size() && x[k] == y[k]) k++;
        return "frame " + std::to_string(i) + " (opcode " + std::to_string(x.size() > 17 ? x[17] : 0) + (a[i]->channel ? ", periodic" : "") + ") differs from the freshly started twin's at byte offset " + std::to_string(k);
    }
    return "";
}

// continuation state for mapper fetch / query loops
struct Loop { int kind; int sid, bridge, node; uint16_t seq; int type; uint32_t offset; int rounds; int tos; int op_index; };
static std::vector<Loop> g_loops; // reset per world run (single world at a time)

static Mac id_mac(World &w, int64_t id);
static Bytes mk_query(World &w, int sid, int bridge, int node, uint16_t seq) {
    Mac me = w.station_mac(sid), es = bridge >= 0 ? id_mac(w, bridge) : me, nm = w.nodes[node]->attr.mac;
    return wire::header(nm, es, 0, wire::W_QUERY, nm, me, seq);
}
static Bytes mk_qlt(World &w, int sid, int bridge, int node, uint16_t seq, int type, uint32_t offset, int tos) {
    Mac me = w.station_mac(sid), es = bridge >= 0 ? id_mac(w, bridge) : me, nm = w.nodes[node]->attr.mac;
    Bytes f = wire::header(nm, es, (uint8_t)tos, wire::W_QLT, nm, me, seq);
    f.push_back((uint8_t)type); f.push_back(0); f.push_back((uint8_t)(offset >> 8)); f.push_back((uint8_t)offset);
    return f;
}

static void responder_tx_hook(World &w, const TxRec &tx) {
    // station models listen
    if (tx.refused || tx.data.size() < 32) return;
    const uint8_t *d = tx.data.data();
    uint8_t op = d[wire::OFF_OP];
    if (op == wire::W_HELLO) {
        Mac src = wire::mac_at(d + wire::OFF_RSRC);
        for (auto &s : w.stations) if (std::find(s.heard.begin(), s.heard.end(), src) == s.heard.end()) s.heard.push_back(src);
    }
    uint16_t seq = wire::be16(d + wire::OFF_SEQ);
    for (size_t i = 0; i < g_loops.size(); i++) {
        Loop &L = g_loops[i];
        if (L.node != tx.node || L.seq != seq || L.rounds <= 0) continue;
        if (L.kind == 0 && op == wire::W_QUERYRESP && tx.data.size() >= 34) {
            uint16_t c = wire::be16(d + 32);
            if (c & 0x8000) {
                L.rounds--; L.seq = (uint16_t)(L.seq + 1); if (L.seq == 0) L.seq = 1;
                Loop C = L;
                w.at(tx.t + w.plan.latency + 1, [&w, C]() { w.put_on_wire(mk_query(w, C.sid, C.bridge, C.node, C.seq), C.sid, -1, nullptr, C.op_index, C.node); });
                w.note("loop_query_more");
            } else L.rounds = 0;
        } else if (L.kind == 1 && op == wire::W_QLTRESP && tx.data.size() >= 34) {
            uint16_t c = wire::be16(d + 32);
            if (c & 0x8000) {
                L.rounds--; L.offset += (uint32_t)(c & 0x7FFF); L.seq = (uint16_t)(L.seq + 1); if (L.seq == 0) L.seq = 1;
                if ((c & 0x7FFF) == 0 || L.offset > 0xFFFF) { L.rounds = 0; continue; }
                Loop C = L;
                w.at(tx.t + w.plan.latency + 1, [&w, C]() { w.put_on_wire(mk_qlt(w, C.sid, C.bridge, C.node, C.seq, C.type, C.offset, C.tos), C.sid, -1, nullptr, C.op_index, C.node); });
                w.note("loop_fetch_more");
            } else L.rounds = 0;
        }
    }
}

void World::handle_delivery(int node, const Frame &f, int op_index, const Op *op, size_t /*unused*/) {
    Node &n = *nodes[node];
    Delivery d;
    d.id = ++delivery_counter; d.node = node; d.op_index = op_index; d.is_twin = n.hidden;
    d.from_responder = f.src_node >= 0; d.src_node = f.src_node; d.wire_id = f.wire_id;
    d.t = std::max(now, n.busy_until);
    d.mtu = n.cfg.mtu;
    d.len = std::min(f.data.size(), (size_t)n.cfg.mtu);
    if (d.len) memcpy(n.rxbuf, f.data.data(), d.len); // recvfrom(sock, buf, MTU): tail keeps its previous content
    if (op) for (auto &ft : op->f) if (ft.kind == F_TAILMAC && ft.a >= 1 && ft.a <= 5 && (plan.memfill_seed & 1) && d.len >= (size_t)ft.a && d.len + (6 - (size_t)ft.a) <= n.cfg.mtu && memcmp(n.rxbuf + d.len - ft.a, n.attr.mac.a, (size_t)ft.a) == 0)
        memcpy(n.rxbuf + d.len, n.attr.mac.a + ft.a, 6 - (size_t)ft.a); // stale content: the remaining bytes of the address happen to follow the frame
    Bytes snap(n.rxbuf, n.rxbuf + n.cfg.mtu);
    d.buf = snap.data();
    cur = &n; curd = &d; curt = nullptr;
    handling_base = d.t; sleep_accum = 0; alloc_index = 0; send_index = 0; ledger_tag = 0;
    allocfail_k = 0; allocfail_n = 1; sendfail_mask = 0; getfail_mask = 0;
    if (op && !n.hidden) for (auto &ft : op->f) {
        if (ft.kind == F_ALLOCFAIL) { allocfail_k = ft.a; allocfail_n = ft.b > 0 ? ft.b : 1; d.internal_fault = true; }
        if (ft.kind == F_SENDFAIL) { sendfail_mask = (uint64_t)ft.a; d.internal_fault = true; }
        if (ft.kind == F_GETFAIL) { getfail_mask = (uint32_t)ft.a; d.internal_fault = true; }
    }
    log.u64(0xDE110000ull + node); log.u64(d.t); log.u64(d.len); log.bytes(n.rxbuf, std::min((size_t)64, (size_t)n.cfg.mtu));
    glue_view_get(n.glue, &d.before);
    scribble_stack((uint8_t)(plan.memfill ^ 0x3C));
    d.ran = (n.cfg.glue == GLUE_DARWIN || d.len > 0); // linux-embedded: `if (bytes <= 0) continue;`  darwin: only `< 0`
    if (d.ran) glue_rx(n.glue, n.rxbuf, d.len);
    if (n.cfg.side_esp32) {
        uint8_t *copy = (uint8_t *)malloc(d.len ? d.len : 1);
        if (d.len) memcpy(copy, n.rxbuf, d.len);
        glue_esp32_rx(n.glue, copy, d.len);
        free(copy);
    }
    glue_view_get(n.glue, &d.after);
    d.t_end = handling_base + sleep_accum;
    if (verbose) {
        std::string l = "  rx node=" + std::to_string(node) + " t=" + std::to_string(d.t) + " len=" + std::to_string(d.len) + (d.len >= 32 ? " tos=" + std::to_string(n.rxbuf[wire::OFF_TOS]) + " opcode=" + std::to_string(n.rxbuf[wire::OFF_OP]) : std::string(" (short)")) +
                        " allocs=" + std::to_string(alloc_index) + (d.alloc_fault_fired ? " ALLOC-FAULT" : "") + (d.get_fault_fired ? " GETTER-FAULT" : "") + (n.hidden ? " [twin]" : "");
        vl(l);
        for (auto &tx : d.txs) vl("    tx len=" + std::to_string(tx.data.size()) + (tx.data.size() >= 32 ? " opcode=" + std::to_string(tx.data[wire::OFF_OP]) : std::string()) + (tx.refused ? " REFUSED" : "") + (tx.channel ? " periodic" : ""));
    }
    n.busy_until = handling_base + sleep_accum + (n.cfg.proc_us + 999) / 1000;
    cur = nullptr; curd = nullptr;
    allocfail_k = 0; sendfail_mask = 0; getfail_mask = 0;
    st.deliveries++;
    for (auto &tx : d.txs) if (tx.channel == 1) n.last_periodic_ms = tx.t;
    if (!n.hidden) {
        for (auto &tx : d.txs) { txhash.u64(tx.data.size() | (tx.refused ? 1ull << 40 : 0) | ((uint64_t)tx.channel << 41)); txhash.bytes(tx.data.data(), tx.data.size());
            node_txhash[node].u64(tx.data.size() | (tx.refused ? 1ull << 40 : 0) | ((uint64_t)tx.channel << 41)); node_txhash[node].bytes(tx.data.data(), tx.data.size()); node_txcount[node]++; }
        if (op_index >= 0) {
            auto &oc = op_counts[op_index];
            oc.first = std::max(oc.first, alloc_index); oc.second = std::max(oc.second, send_index);
            for (auto &tx : d.txs) if (tx.channel == 0) op_txs[op_index].push_back(tx.data);
        }
    }
    // abstract trace element
    abstract.byte(d.buf[wire::OFF_OP]); abstract.byte(d.buf[wire::OFF_TOS] < 3 ? d.buf[wire::OFF_TOS] : 3);
    abstract.byte((uint8_t)d.txs.size()); abstract.byte((uint8_t)(d.internal_fault ? 1 : 0));
    for (auto &tx : d.txs) abstract.byte(tx.data.size() >= 32 ? tx.data[wire::OFF_OP] : 0xEE);
    if (!n.hidden) {
        for (auto m : monitors) m->on_delivery(*this, d);
        for (auto &tx : d.txs) {
            for (auto m : monitors) m->on_station_rx(*this, tx);
            responder_tx_hook(*this, tx);
            if (!tx.refused && !plan.isolate) put_on_wire(tx.data, -1, node, nullptr, -1);
        }
        // ---- C09 / C18 twin mirror
        if (plan.twin && d.ran) {
            bool is_topo_reset = d.buf[wire::OFF_TOS] == 0 && d.buf[wire::OFF_OP] == wire::W_RESET;
            if (n.twin >= 0) {
                Node &t = *nodes[n.twin];
                if (d.internal_fault) { n.twin = -1; note("twin_dropped_internal_fault"); }
                else if (!is_topo_reset) {
                    Delivery dt;
                    dt.id = d.id; dt.node = n.twin; dt.is_twin = true; dt.t = d.t; dt.mtu = t.cfg.mtu; dt.len = d.len;
                    memcpy(t.rxbuf, snap.data(), t.cfg.mtu); // same effective buffer, stale tail included
                    cur = &t; curd = &dt;
                    handling_base = d.t; sleep_accum = 0; alloc_index = 0; send_index = 0; ledger_tag = 0;
                    scribble_stack((uint8_t)(plan.memfill ^ 0x5A));
                    glue_rx(t.glue, t.rxbuf, dt.len);
                    cur = nullptr; curd = nullptr;
                    note("twin_compared");
                    std::vector<const TxRec *> a, b;
                    for (auto &x : d.txs) if (x.channel == 0 || n.twin_full) a.push_back(&x);
                    for (auto &x : dt.txs) if (x.channel == 0 || n.twin_full) b.push_back(&x);
                    if (!a.empty() || !b.empty()) note("twin_compared_nonempty");
                    std::string why = describe_diff(a, b);
                    if (!why.empty()) {
                        char buf[128];
                        snprintf(buf, sizeof buf, "after topology Reset, reaction to opcode %u of service %u: ", d.buf[wire::OFF_OP], d.buf[wire::OFF_TOS]);
                        violate(plan.prop == "C18" ? "C18" : "C09", "post-reset-differs", std::string(buf) + why);
                    }
                }
            }
            if (is_topo_reset && !d.internal_fault) after_reset_twin(node);
        }
    }
    if (n.cfg.glue == GLUE_DARWIN && !n.hidden) schedule_tick(node);
}

void World::after_reset_twin(int node) {
    Node &n = *nodes[node];
    NodeCfg c = n.cfg;
    // A node of the documented (Darwin) flow gets a twin running the same flow, so that the periodic Hellos are compared as well -
    // unless it sent a periodic Hello within the last second: the 1 s spacing (C12) then legitimately delays its next one.
    uint64_t tnow = std::max(now, n.busy_until);
    bool full = n.cfg.glue == GLUE_DARWIN && n.usable && (n.last_periodic_ms == 0 || n.last_periodic_ms + 1000 < tnow);
    c.glue = full ? GLUE_DARWIN : GLUE_BARE; c.side_esp32 = false; c.side_classifier = false;
    n.twin_full = full;
    if (full) note("twin_full_flow");
    Attr same = nodes[node]->attr; // same interface, same configuration as of now
    int t = make_node(c, true, &same);
    nodes[t]->twin_of = node;
    nodes[node]->twin = t;
    note("twin_started");
}

void World::pump(uint64_t until) {
    // A busy node's arrivals wait in its socket buffer (Node::pending) and one wake-up event per node stands in for them in the
    // queue - same order and times as re-queuing every waiting frame at busy_until, without the quadratic cost of doing so.
    auto set_wake = [&](Node &n, int node) {
        if (n.pending.empty()) { n.wake_set = false; return; }
        uint64_t wt = std::max(now, n.busy_until), ws = n.pending.begin()->first;
        if (n.wake_set && n.wake_t == wt && n.wake_seq == ws) return;
        n.wake_set = true; n.wake_t = wt; n.wake_seq = ws;
        Event w; w.t = wt; w.seq = ws; w.type = 3; w.node = node; w.gen = 0; w.op_index = -1;
        q.push(w);
    };
    while (!q.empty() && q.top().t <= until && !stop) {
        Event e = q.top();
        q.pop();
        if (e.t > now) now = e.t;
        st.events++;
        if (e.type == 3) { // wake-up: the node may be back in recvfrom
            Node &n = *nodes[e.node];
            if (!n.wake_set || e.t != n.wake_t || e.seq != n.wake_seq) continue; // superseded
            n.wake_set = false;
            if (n.pending.empty()) continue;
            if (n.busy_until > now) { set_wake(n, e.node); continue; }
            Event w = *n.pending.begin()->second;
            n.pending.erase(n.pending.begin());
            w.t = now;
            e = w; // handled below exactly like an event popped at this instant
            set_wake(n, e.node);
        }
        if (e.type == 0) {
            Node &n = *nodes[e.node];
            if (n.busy_until > now) { n.pending[e.seq] = std::make_shared<Event>(e); set_wake(n, e.node); continue; } // socket buffer: wait until the thread is back in recvfrom
            const Op *op = (e.op_index >= 0 && e.op_index < (int)plan.ops.size()) ? &plan.ops[e.op_index] : nullptr;
            handle_delivery(e.node, *e.frame, e.op_index, op, 0);
        } else if (e.type == 1) {
            Node &n = *nodes[e.node];
            if (e.gen != n.tick_gen) continue;
            if (n.busy_until > now) {
                // the timer fires while the thread is away for a long time (suspended host, stalled process): the frames that reached the socket before this
                // instant are read first when it comes back - a select loop returns the readable socket before it looks at its timeout
                if (n.busy_until - now > 1000) e.seq = ++seq;
                n.pending[e.seq] = std::make_shared<Event>(e); set_wake(n, e.node); continue;
            }
            do_tick(e.node);
            schedule_tick(e.node);
        } else if (e.fn) e.fn();
        if (violations.size() >= 1 && !verbose) stop = true;
    }
    if (!stop && until > now) now = until;
}

static Mac id_mac(World &w, int64_t id) {
    if (id >= 0 && id < 100) return w.station_mac((int)id);
    if (id >= 100 && id < 200 && (size_t)(id - 100) < w.nodes.size()) return w.nodes[(size_t)(id - 100)]->attr.mac;
    if (id >= 300 && id < 360 && (size_t)((id - 300) / 6) < w.nodes.size()) { // a foreign station whose address differs from a node's in one byte only
        Mac m = w.nodes[(size_t)((id - 300) / 6)]->attr.mac;
        m.a[(id - 300) % 6] ^= 0x10;
        return m;
    }
    if (id == -1) return MAC_BCAST;
    return w.synth_mac(id);
}

void World::exec_op(int i) {
    const Op &op = plan.ops[i];
    cur_op = i;
    log.u64(0x09000000ull + (uint64_t)op.kind); log.u64(now);
    for (auto m : monitors) m->on_op(*this, i, op);
    vl(std::string("t=") + std::to_string(now) + " " + op_to_text(op));
    auto nodeok = [&](int64_t n) { return n >= 0 && (size_t)n < nodes.size() && !nodes[(size_t)n]->hidden; };
    switch (op.kind) {
    case OP_DISCOVER: {
        int sid = (int)op.a[0], br = (int)op.a[1];
        Mac me = sid >= 100 ? id_mac(*this, sid) : station_mac(sid), es = br >= 0 ? id_mac(*this, br) : me; // sender ids from 100 on: our own address, one-byte neighbours of it
        Bytes f = wire::header(MAC_BCAST, es, (uint8_t)op.a[2], wire::W_DISCOVER, MAC_BCAST, me, (uint16_t)op.a[4]);
        std::vector<Mac> list;
        if (op.a[5] == 0) { if ((size_t)sid < stations.size()) list = stations[sid].heard; }
        else if (op.a[5] == 1) {
            int fill = (int)op.a[6], pos = (int)op.a[7], tgt = op.blob.empty() ? 0 : op.blob[0];
            for (int k = 0; k < fill; k++) list.push_back(synth_mac(5000 + k));
            if (pos >= 0 && nodeok(tgt)) { if (pos > fill) pos = fill; list.insert(list.begin() + pos, nodes[tgt]->attr.mac); }
        }
        else if (op.a[5] == 3) { // our address is NOT an entry, but its six bytes appear in the list across the boundary of two neighbouring entries
            int fill = std::max(2, (int)op.a[6]), pos = (int)op.a[7], tgt = op.blob.empty() ? 0 : op.blob[0], sft = op.blob.size() > 1 ? 1 + op.blob[1] % 5 : 3;
            for (int k = 0; k < fill; k++) list.push_back(synth_mac(5000 + k));
            if (nodeok(tgt)) {
                if (pos < 0) pos = 0;
                if (pos > fill - 2) pos = fill - 2;
                const Mac &own = nodes[tgt]->attr.mac;
                for (int b = 0; b < sft; b++) list[pos].a[6 - sft + b] = own.a[b];
                for (int b = sft; b < 6; b++) list[pos + 1].a[b - sft] = own.a[b];
            }
        }
        f.resize(36);
        wire::put16(&f[32], (uint16_t)op.a[3]); wire::put16(&f[34], (uint16_t)list.size());
        for (auto &m : list) f.insert(f.end(), m.a, m.a + 6);
        put_on_wire(f, sid, -1, &op, i);
        break;
    }
    case OP_EMIT: {
        if (!nodeok(op.a[2])) break;
        int sid = (int)op.a[0], br = (int)op.a[1];
        Mac me = station_mac(sid), es = br >= 0 ? id_mac(*this, br) : me, nm = nodes[op.a[2]]->attr.mac;
        Bytes f = wire::header(nm, es, (uint8_t)op.a[5], wire::W_EMIT, nm, me, (uint16_t)op.a[3]);
        size_t nd = op.blob.size() / 14;
        f.resize(34);
        wire::put16(&f[32], (uint16_t)(op.a[4] >= 0 ? op.a[4] : (int64_t)nd));
        f.insert(f.end(), op.blob.begin(), op.blob.begin() + nd * 14);
        put_on_wire(f, sid, -1, &op, i, (int)op.a[2]);
        break;
    }
    case OP_PROBE: {
        Mac es = id_mac(*this, op.a[0]), rs = id_mac(*this, op.a[1]), ed = id_mac(*this, op.a[3]), rd = id_mac(*this, op.a[4]);
        Bytes f = wire::header(ed, es, (uint8_t)op.a[5], (uint8_t)op.a[2], rd, rs, (uint16_t)op.a[6]);
        put_on_wire(f, -1, -1, &op, i, op.a[7] > 0 ? (int)op.a[7] - 1 : -1);
        break;
    }
    case OP_FLOOD: {
        if (!nodeok(op.a[2])) break;
        int node = (int)op.a[2];
        Mac nm = nodes[node]->attr.mac;
        for (int64_t k = 0; k < op.a[0] && !stop; k++) {
            int64_t id = op.a[4] == 1 ? op.a[1] : op.a[1] + k;
            uint8_t opc = op.a[3] == 0 ? ((id & 1) ? wire::W_PROBE : wire::W_TRAIN) : (uint8_t)op.a[3];
            Mac s = synth_mac(id);
            Frame fr;
            // a[5] / a[6]: fixed real source / fixed Ethernet source (address ids as for PROBE; 0 = per-frame address as usual)
            Mac rs = op.a[5] != 0 ? id_mac(*this, op.a[5] == -2 ? 0 : op.a[5]) : s, es = op.a[6] != 0 ? id_mac(*this, op.a[6] == -2 ? 0 : op.a[6]) : s;
            fr.data = wire::header(nm, es, 0, opc, nm, rs, 0);
            fr.wire_id = ++wire_counter;
            handle_delivery(node, fr, i, &op, 0);
            if (!violations.empty() && !verbose) stop = true;
        }
        break;
    }
    case OP_QUERY: {
        if (!nodeok(op.a[2])) break;
        if (op.a[4] > 0) g_loops.push_back({0, (int)op.a[0], (int)op.a[1], (int)op.a[2], (uint16_t)op.a[3], 0, 0, (int)op.a[4], 0, i});
        put_on_wire(mk_query(*this, (int)op.a[0], (int)op.a[1], (int)op.a[2], (uint16_t)op.a[3]), (int)op.a[0], -1, &op, i, (int)op.a[2]);
        break;
    }
    case OP_QLT: {
        if (!nodeok(op.a[2])) break;
        put_on_wire(mk_qlt(*this, (int)op.a[0], (int)op.a[1], (int)op.a[2], (uint16_t)op.a[3], (int)op.a[4], (uint32_t)op.a[5], (int)op.a[6]),
                    (int)op.a[0], -1, &op, i, (int)op.a[2]);
        break;
    }
    case OP_FETCH: {
        if (!nodeok(op.a[2])) break;
        g_loops.push_back({1, (int)op.a[0], (int)op.a[1], (int)op.a[2], (uint16_t)op.a[3], (int)op.a[4], 0, (int)op.a[6], (int)op.a[5], i});
        put_on_wire(mk_qlt(*this, (int)op.a[0], (int)op.a[1], (int)op.a[2], (uint16_t)op.a[3], (int)op.a[4], 0, (int)op.a[5]), (int)op.a[0], -1, &op, i, (int)op.a[2]);
        break;
    }
    case OP_RESET: {
        int sid = (int)op.a[0], br = (int)op.a[1];
        Mac me = station_mac(sid), es = br >= 0 ? id_mac(*this, br) : me;
        Mac rd = (op.a[3] == 1 && nodeok(op.a[4])) ? nodes[op.a[4]]->attr.mac : MAC_BCAST;
        Bytes f = wire::header(MAC_BCAST, es, (uint8_t)op.a[2], wire::W_RESET, rd, me, (uint16_t)op.a[5]);
        put_on_wire(f, sid, -1, &op, i);
        break;
    }
    case OP_CHARGE: {
        if (!nodeok(op.a[2])) break;
        Mac me = station_mac((int)op.a[0]), nm = nodes[op.a[2]]->attr.mac;
        put_on_wire(wire::header(nm, me, 0, wire::W_CHARGE, nm, me, (uint16_t)op.a[3]), (int)op.a[0], -1, &op, i, (int)op.a[2]);
        break;
    }
    case OP_HELLO: {
        Mac me = station_mac((int)op.a[0]);
        Bytes f = wire::header(MAC_BCAST, me, (uint8_t)op.a[2], wire::W_HELLO, MAC_BCAST, me, 0);
        f.resize(46);
        wire::put16(&f[32], (uint16_t)op.a[1]);
        memcpy(&f[34], me.a, 6); memcpy(&f[40], me.a, 6);
        f.push_back(0);
        int64_t count = op.a[3] > 0 ? op.a[3] : 1;
        if (count == 1) { put_on_wire(f, (int)op.a[0], -1, &op, i); break; }
        // storm: count copies; a4 = spread in ms (0 = back to back at one instant, handled inline)
        if (op.a[4] > 0 && count <= 4000) {
            uint64_t base = now;
            for (int64_t k = 0; k < count; k++) {
                uint64_t tt = base + (uint64_t)(k * op.a[4] / count);
                Bytes ff = f;
                int sidc = (int)op.a[0];
                int onlyc = op.only;
                at(tt, [this, ff, sidc, i, onlyc]() { put_on_wire(ff, sidc, -1, nullptr, i, onlyc); });
            }
        } else {
            Frame fr;
            fr.data = f; fr.src_station = (int)op.a[0];
            for (size_t nn = 0; nn < nodes.size(); nn++) {
                if (nodes[nn]->hidden || !nodes[nn]->usable) continue;
                if (op.a[5] > 0 && (int)nn != op.a[5] - 1) continue;
                if (op.only >= 0 && (int)nn != op.only) continue;
                for (int64_t k = 0; k < count && !stop; k++) { fr.wire_id = ++wire_counter; handle_delivery((int)nn, fr, i, nullptr, 0); if (!violations.empty() && !verbose) stop = true; }
            }
        }
        break;
    }
    case OP_RAW: put_on_wire(op.blob, -1, -1, &op, i, (int)op.a[0]); break;
    case OP_STRAY: {
        Mac me = station_mac((int)op.a[0]);
        Mac d = nodeok(op.a[3]) ? nodes[op.a[3]]->attr.mac : MAC_BCAST;
        Bytes f = wire::header(d, op.a[5] >= 0 && op.a[5] < 100 && op.a[5] != op.a[0] && op.a[6] == 1 ? station_mac((int)op.a[5]) : me, (uint8_t)op.a[1], (uint8_t)op.a[2], d, me, (uint16_t)op.a[4]);
        f.insert(f.end(), op.blob.begin(), op.blob.end());
        put_on_wire(f, (int)op.a[0], -1, &op, i, nodeok(op.a[3]) ? (int)op.a[3] : -1);
        break;
    }
    case OP_TICK: if (nodeok(op.a[0])) { do_tick((int)op.a[0]); } break;
    case OP_STALL:
        for (size_t nn = 0; nn < nodes.size(); nn++)
            if (op.a[0] < 0 || (int64_t)nn == op.a[0]) { nodes[nn]->busy_until = std::max(now, nodes[nn]->busy_until) + (uint64_t)op.a[1]; note("stall"); }
        break;
    case OP_ATTR:
        if (nodeok(op.a[0])) {
            attr_mutate(nodes[op.a[0]]->attr, (uint64_t)op.a[1], (uint32_t)op.a[2]);
            if (op.a[2] & 0x20000) { // the interface gets another hardware address (the context stays the same)
                Rng mr(mix64((uint64_t)op.a[1], 0x3AC));
                Mac &m = nodes[op.a[0]]->attr.mac;
                for (auto &c : m.a) c = (uint8_t)mr.next();
                if (m.a[0] == 0x02 || m.a[0] == 0x06 || m.a[0] == 0xFF) m.a[0] = 0x0A;
                m.a[5] = (uint8_t)((m.a[5] & 0xF0) | ((size_t)op.a[0] & 0x0F));
                if (nodes[op.a[0]]->glue) glue_set_mac(nodes[op.a[0]]->glue, m.a); // the daemon's copy of the address follows the interface
                if (nodes[op.a[0]]->twin >= 0 && nodes[nodes[op.a[0]]->twin]->glue) glue_set_mac(nodes[nodes[op.a[0]]->twin]->glue, m.a);
                note("mac_change");
            }
            if ((op.a[2] & 0x80000) && nodes[op.a[0]]->ctx_gen < 8191 && nodes[op.a[0]]->twin < 0) { // hot-plug: the interface goes away and comes back; the daemon builds new state under a NEW context pointer
                Node &x = *nodes[op.a[0]];
                cur = &x; ledger_tag = 1; handling_base = now; sleep_accum = 0;
                glue_destroy(x.glue);
                x.ctx_gen++;
                x.glue = glue_create(x.cfg.glue, x.ctx(), x.attr.mac.a, x.cfg.side_esp32 ? 1 : 0, x.cfg.side_classifier ? 1 : 0);
                x.usable = x.glue && glue_usable(x.glue);
                cur = nullptr; ledger_tag = 0;
                x.pending.clear(); x.wake_set = false; x.busy_until = 0;
                // what the core keeps under the abandoned context pointer stays allocated for good; it belongs to no interface any more
                for (auto &kv : ledger) if (kv.second.node == (int)op.a[0] && kv.second.tag != 1) {
                    if ((size_t)kv.second.node < node_live_count.size()) { node_live_count[kv.second.node]--; node_live_bytes[kv.second.node] -= kv.second.size; if (kv.second.tag == 2) node_icon_bytes[kv.second.node] -= kv.second.size; }
                    kv.second.node = -2;
                }
                note("hotplug_fresh_context");
            }
            if ((op.a[2] & 0x40000) && op.a[3] >= 64 && op.a[3] <= 65536) { // the link's MTU changes in place (same context): the daemon re-sizes its receive buffer
                for (int which = 0; which < 2; which++) {
                    int idx = which == 0 ? (int)op.a[0] : nodes[op.a[0]]->twin;
                    if (idx < 0) continue;
                    Node &x = *nodes[(size_t)idx];
                    x.cfg.mtu = (uint32_t)op.a[3];
                    free(x.rxbuf);
                    x.rxbuf = (uint8_t *)malloc(x.cfg.mtu);
                    memset(x.rxbuf, x.cfg.rxfill, x.cfg.mtu);
                }
                note("mtu_change");
            }
            if (nodes[op.a[0]]->twin >= 0) nodes[nodes[op.a[0]]->twin]->attr = nodes[op.a[0]]->attr; // the twin is the same interface
            note("attr_change");
        }
        break;
    case OP_PARTITION:
        for (size_t nn = 0; nn < nodes.size() && nn < 8; nn++)
            if (op.a[0] < 0 || (int64_t)nn == op.a[0]) partition_until[nn] = now + (uint64_t)op.a[1];
        note("partition");
        break;
    case OP_CTOR: {
        handling_base = now; sleep_accum = 0; alloc_index = 0; ledger_tag = 1; allocfail_k = 0; allocfail_n = 1;
        for (auto &ft : op.f) if (ft.kind == F_ALLOCFAIL) { allocfail_k = ft.a; allocfail_n = ft.b > 0 ? ft.b : 1; }
        uint64_t before = live_count;
        int r = glue_ctor_probe((int)op.a[0]);
        allocfail_k = 0; ledger_tag = 0;
        note(r ? "ctor_returned_object" : "ctor_returned_null");
        if (live_count != before) violate("C18", "ctor-leak", "constructor " + std::to_string(op.a[0]) + " under allocation failure leaked " + std::to_string((long long)(live_count - before)) + " allocation(s)");
        break;
    }
    default:
        if (op.kind >= OP_A_ADV) exec_api(i, op);
        break;
    }
}

void World::exec_api(int i, const Op &op) {
    if (nodes.empty() || !nodes[0]->usable || nodes[0]->cfg.glue != GLUE_DARWIN) return;
    Node &n = *nodes[0];
    st.api_ops++;
    if (op.kind == OP_A_ADV) { now += (uint64_t)op.a[0]; handling_base = now; for (auto m : monitors) { glue_view v; glue_view_get(n.glue, &v); m->on_api(*this, i, op, v, v, 0); } return; }
    if (op.kind == OP_A_REINIT) { // the daemon tears the interface down and brings it up again (new automata, new table) at the current time
        cur = &n; ledger_tag = 1; handling_base = now; sleep_accum = 0;
        glue_destroy(n.glue);
        alloc_index = 0; allocfail_k = 0; allocfail_n = 1;
        for (auto &ft : op.f) if (ft.kind == F_ALLOCFAIL) { allocfail_k = ft.a; allocfail_n = ft.b > 0 ? ft.b : 1; } // a constructor of the new instance finds no memory
        n.glue = glue_create(n.cfg.glue, n.ctx(), n.attr.mac.a, 0, 0);
        allocfail_k = 0;
        n.usable = n.glue && glue_usable(n.glue);
        if (n.glue) { glue_view tv; glue_view_get(n.glue, &tv); if (n.usable && !tv.have_table) note("api_reinit_without_session_table"); }
        cur = nullptr; ledger_tag = 0;
        glue_view v; glue_view_get(n.glue, &v);
        for (auto m : monitors) m->on_api(*this, i, op, v, v, 0);
        note("api_reinit");
        return;
    }
    if (op.kind == OP_A_TICK) { for (auto m : monitors) m->pre_api(*this, i, op); n.busy_until = 0; do_tick(0); glue_view v; glue_view_get(n.glue, &v); for (auto m : monitors) m->on_api(*this, i, op, v, v, 0); return; }
    for (auto m : monitors) m->pre_api(*this, i, op);
    glue_view before, after;
    cur = &n; curd = nullptr; curt = nullptr;
    handling_base = now; sleep_accum = 0; ledger_tag = 0;
    glue_view_get(n.glue, &before);
    alloc_index = 0; allocfail_k = 0; allocfail_n = 1;
    for (auto &ft : op.f) if (ft.kind == F_ALLOCFAIL) { allocfail_k = ft.a; allocfail_n = ft.b > 0 ? ft.b : 1; } // should this call allocate, the allocation fails
    int64_t ret = 0;
    Mac km = api_key_mac((int)op.a[0]);
    uint16_t kg = api_key_gen((int)op.a[0]);
    switch (op.kind) {
    case OP_A_MAP: glue_api_mapping_switch(n.glue, (int)op.a[0]); break;
    case OP_A_SESS: glue_api_session_switch(n.glue, (int)op.a[0]); break;
    case OP_A_ENUM: glue_api_enum_switch(n.glue, (int)op.a[0]); break;
    case OP_A_TADD: ret = glue_api_table_add(n.glue, km.a, kg, (uint16_t)op.a[1]); break;
    case OP_A_TFIND: ret = glue_api_table_find(n.glue, km.a, kg, (uint16_t)op.a[1]); break;
    case OP_A_TREM: glue_api_table_remove(n.glue, km.a, kg); break;
    case OP_A_TCLR: glue_api_table_clear(n.glue); break;
    case OP_A_TCOMPL: ret = glue_api_table_find(n.glue, km.a, kg, 0); if (ret >= 0) glue_api_table_set_complete(n.glue, (int)ret, (int)op.a[1]); break;
    case OP_A_HEARD: for (int64_t k = 0; k < op.a[0]; k++) glue_api_band_hello_heard(n.glue); glue_api_enum_switch(n.glue, 2); break;
    case OP_A_DISCBOOK: glue_api_discover_bookkeeping(n.glue); break;
    case OP_A_CHARGE: glue_api_mapping_charge(n.glue); break;
    case OP_A_INACT: glue_api_mapping_reset_inactive(n.glue); break;
    case OP_A_SETR: glue_api_band_set_r(n.glue, (uint32_t)op.a[0]); break;
    case OP_A_BANDSET: glue_api_band_set(n.glue, (uint32_t)op.a[0], (int)op.a[1]); break;
    case OP_A_SETMAP: glue_api_mapping_set(n.glue, (int)op.a[0], now / 1000 - (uint64_t)op.a[1]); break;
    case OP_A_SETSESS: glue_api_session_set(n.glue, (int)op.a[0], now / 1000 - (uint64_t)op.a[1]); break;
    case OP_A_BLOCKEND: glue_api_band_update_stats(n.glue); ret = (int64_t)glue_api_band_choose(n.glue); break;
    default: break;
    }
    glue_view_get(n.glue, &after);
    allocfail_k = 0;
    cur = nullptr;
    if (plan.call_us && sleep_accum) { now += sleep_accum; sleep_accum = 0; } // the time the call itself took has passed
    log.u64((uint64_t)ret); log.u64((uint64_t)after.mapping_state * 16 + (uint64_t)after.session_state); log.u64(after.band_Ni); log.u64((uint64_t)after.table_count);
    abstract.byte((uint8_t)op.kind); abstract.byte((uint8_t)after.mapping_state); abstract.byte((uint8_t)after.session_state); abstract.byte((uint8_t)after.table_count);
    for (auto m : monitors) m->on_api(*this, i, op, before, after, ret);
}

void World::run() {
    g_w = this;
    g_loops.clear();
    log.u64(plan.seed);
    for (auto &c : plan.nodes) make_node(c, false);
    int nst = 8;
    stations.resize(nst);
    for (int s = 0; s < nst; s++) stations[s].mac = station_mac(s);
    for (auto m : monitors) m->on_start(*this);
    if (!plan.api_world) for (size_t i = 0; i < nodes.size(); i++) schedule_tick((int)i);
    for (size_t i = 0; i < plan.ops.size() && !stop; i++) {
        if (plan.api_world) { exec_op((int)i); }
        else { uint64_t target = now + plan.ops[i].dt; pump(target); if (!stop) exec_op((int)i); }
        if (!violations.empty() && !verbose) stop = true;
    }
    if (!plan.api_world && !stop) pump(now + plan.tail_ms);
    st.sim_ms += std::min<uint64_t>(now - plan.t0, 86400000ull); // per run capped at 24 h: boundary-sized clock jumps would otherwise dominate the total
    if (!stop || verbose) for (auto m : monitors) m->on_end(*this);
    log.u64(now);
}
