// main.cc -- check driver: seeded search over plans in worker processes, crash classification,
// minimisation, replay gate, known findings, evidence.
#include "sim.hh"

#include <chrono>
#include <fcntl.h>
#include <fstream>
#include <signal.h>
#include <sstream>
#include <sys/mman.h>
#include <sys/stat.h>
#include <sys/wait.h>
#include <unistd.h>

extern "C" __attribute__((used, visibility("default"), noinline)) const char *__asan_default_options() {
    return "exitcode=77:detect_leaks=0:abort_on_error=0:handle_abort=1:print_summary=1:detect_stack_use_after_return=0:quarantine_size_mb=4";
}
extern "C" __attribute__((used, visibility("default"), noinline)) const char *__ubsan_default_options() {
    return "print_stacktrace=1:halt_on_error=1:exitcode=77";
}

// ---------------------------------------------------------------- simulated process restart: snapshot / restore of the core's writable sections
extern "C" {
extern char __start_corebss[] __attribute__((weak));
extern char __stop_corebss[] __attribute__((weak));
extern char __start_coredata[] __attribute__((weak));
extern char __stop_coredata[] __attribute__((weak));
}
static std::vector<char> g_snap_bss, g_snap_data;
__attribute__((no_sanitize("address", "undefined"), noinline)) static void raw_copy(char *d, const char *s, size_t n) {
    for (size_t i = 0; i < n; i++) ((volatile char *)d)[i] = s[i];
}
static void snapshot_core() {
    if (__start_corebss && __stop_corebss > __start_corebss) { g_snap_bss.resize(__stop_corebss - __start_corebss); raw_copy(g_snap_bss.data(), __start_corebss, g_snap_bss.size()); }
    if (__start_coredata && __stop_coredata > __start_coredata) { g_snap_data.resize(__stop_coredata - __start_coredata); raw_copy(g_snap_data.data(), __start_coredata, g_snap_data.size()); }
}
static void restore_core() {
    if (!g_snap_bss.empty()) raw_copy(__start_corebss, g_snap_bss.data(), g_snap_bss.size());
    if (!g_snap_data.empty()) raw_copy(__start_coredata, g_snap_data.data(), g_snap_data.size());
}

static double now_s() { return std::chrono::duration<double>(std::chrono::steady_clock::now().time_since_epoch()).count(); }

// ---------------------------------------------------------------- running one plan
struct RunResult {
    std::vector<Violation> v;
    uint64_t hash = 0, abstract = 0, txhash = 0;
    Stats st;
    std::map<int, uint64_t> node_txhash;
    std::map<int, std::vector<Bytes>> op_txs;
    std::map<int, std::pair<uint64_t, uint64_t>> op_counts;
    std::vector<std::string> vlog;
};
static void merge_stats(Stats &a, const Stats &b) {
    a.deliveries += b.deliveries; a.ticks += b.ticks; a.txs += b.txs; a.events += b.events; a.sim_ms += b.sim_ms; a.api_ops += b.api_ops;
    for (int i = 0; i < F_KIND_MAX; i++) a.fault_fired[i] += b.fault_fired[i];
    for (int i = 0; i < PROBE_MAX; i++) a.probes[i] += b.probes[i];
    for (auto &kv : b.named) a.named[kv.first] += kv.second;
    for (auto c : b.cells) a.cells.insert(c);
}
static RunResult run_world(const Plan &p, const std::string &monprop, bool verbose) {
    restore_core();
    RunResult r;
    {
        World w(p);
        w.verbose = verbose;
        w.monitors = make_monitors(monprop, w);
        w.run();
        r.v = w.violations;
        r.hash = w.log.h; r.abstract = w.abstract.h; r.txhash = w.txhash.h;
        r.st = w.st;
        for (auto &kv : w.node_txhash) r.node_txhash[kv.first] = kv.second.h;
        r.op_txs = w.op_txs; r.op_counts = w.op_counts;
        r.vlog = w.vlog;
    }
    restore_core();
    return r;
}
static bool has_internal_faults(const Plan &p) { for (auto &o : p.ops) for (auto &f : o.f) if (fault_is_internal(f.kind)) return true; return false; }

static RunResult run_plan(const Plan &p, bool verbose) {
    const std::string &prop = p.prop;
    RunResult r = run_world(p, prop, verbose);
    if (!r.v.empty()) return r;
    if (prop == "C02") {
        // determinism clause: same plan, different content of freshly allocated memory and of the stack
        Plan q = p;
        q.memfill = (p.memfill == 0xFE) ? 0x5A : (uint8_t)~p.memfill;
        q.memfill_seed = p.memfill_seed ^ 0x5DEECE66Dull;
        RunResult r2 = run_world(q, "NONE", false);
        r.st.named["c02_fill_twin_runs"]++;
        if (r2.txhash != r.txhash) r.v.push_back({"C02", "uninitialised-memory-on-wire", "the transmitted trace changes when only the byte pattern of freshly allocated memory changes"});
    } else if (prop == "C17") {
        // sequential half: each interface alone must produce the trace it produced in the interleaving
        for (int node = 0; node < (int)p.nodes.size(); node++) {
            Plan q = p;
            q.ops.clear();
            uint32_t carry = 0;
            for (auto &o : p.ops) {
                bool mine = o.only == node;
                if (mine) { Op c = o; c.dt += carry; carry = 0; q.ops.push_back(c); } else carry += o.dt;
            }
            q.tail_ms += carry;
            RunResult rs = run_world(q, "NONE", false);
            r.st.named["c17_solo_runs"]++;
            uint64_t a = r.node_txhash.count(node) ? r.node_txhash[node] : 0, b = rs.node_txhash.count(node) ? rs.node_txhash[node] : 0;
            if (a || b) r.st.named["c17_nonempty_trace_compared"]++;
            if (a != b) { r.v.push_back({"C17", "cross-talk-sequential", "interface " + std::to_string(node) + ": trace in the interleaving differs from the trace of its own history alone"}); break; }
        }
    } else if (prop == "C18") {
        // faulted request answered partially or not at all, never wrongly: frames of the faulted op are a sub-multiset of the fault-free run
        bool getfault = false;
        for (auto &o : p.ops) for (auto &f : o.f) if (f.kind == F_GETFAIL) getfault = true;
        if (has_internal_faults(p) && !getfault) {
            Plan q = p;
            for (auto &o : q.ops) { std::vector<Fault> keep; for (auto &f : o.f) if (!fault_is_internal(f.kind)) keep.push_back(f); o.f = keep; }
            RunResult rb = run_world(q, "NONE", false);
            for (size_t i = 0; i < p.ops.size(); i++) {
                bool faulted = false;
                for (auto &f : p.ops[i].f) if (fault_is_internal(f.kind)) faulted = true;
                if (!faulted || p.ops[i].kind == OP_CTOR) continue;
                std::vector<Bytes> base = rb.op_txs.count((int)i) ? rb.op_txs[(int)i] : std::vector<Bytes>();
                for (auto &tx : r.op_txs[(int)i]) {
                    auto it = std::find(base.begin(), base.end(), tx);
                    if (it == base.end() && tx.size() == 34 && tx[wire::OFF_OP] == wire::W_QLTRESP && tx[32] == 0 && tx[33] == 0) {
                        // a large property the platform could not deliver is reported as unavailable: the empty answer to the same request
                        for (auto b = base.begin(); b != base.end(); ++b) if (b->size() >= 32 && memcmp(b->data(), tx.data(), 32) == 0) { it = b; break; }
                    }
                    if (it == base.end()) { r.v.push_back({"C18", "faulted-request-answered-wrongly", "under an injected platform fault the request produced a frame that the fault-free run never sends"}); break; }
                    base.erase(it);
                }
                r.st.named["c18_subset_checked"]++;
            }
        }
    }
    return r;
}
static std::string vclass(const Violation &v) { return v.prop + ":" + v.clause; }
// for a check of property P: which violation (if any) counts
static const Violation *relevant(const std::string &prop, const RunResult &r) {
    for (auto &v : r.v) {
        if (v.prop == prop) return &v;
        if (prop == "C18") return &v; // every oracle that is switched on in the C18 configuration is a C18 clause
        if (prop == "C02" && v.prop == "C08" && (v.clause == "chunk-relation" || v.clause == "response-exceeds-mtu" || v.clause == "response-seq")) return &v; // structure of a single response
        if (prop == "C01" && v.prop == "C01") return &v;
    }
    return nullptr;
}

// ---------------------------------------------------------------- C18: systematic fault enumeration over a scenario corpus
static Op mkop(int kind, uint32_t dt, std::initializer_list<int64_t> a) { Op o; o.kind = kind; o.dt = dt; int i = 0; for (auto v : a) if (i < 8) o.a[i++] = v; return o; }
static std::vector<Plan> c18_scenarios(bool thorough) {
    std::vector<Plan> out;
    static const uint32_t MT[] = {1500, 576, 9216, 1500, 1280, 1500, 4096, 577, 1501, 9000, 2048, 1492};
    for (int s = 0; s < (thorough ? 12 : 6); s++) {
        Plan p;
        p.prop = "C18"; p.family = s; p.seed = 1800 + s; p.t0 = 7000 + 1000 * s; p.mac_seed = 0xC18 + s; p.memfill = s % 2 ? 0xFE : 0xA5; p.memfill_seed = 99 + s;
        p.latency = 1; p.twin = true; p.tail_ms = 600;
        NodeCfg n;
        n.glue = s % 3 == 2 ? GLUE_DARWIN : (s % 3 == 1 ? GLUE_LEGACY : GLUE_BARE); n.mtu = MT[s]; n.attr_seed = 4242 + s * 7; n.wifi = s % 2 == 1; n.rxfill = 0;
        p.nodes.push_back(n);
        int M = 0;
        int br = (s == 4 || s == 9) ? 1 : -1;
        Attr a = make_attr(n.attr_seed, n.wifi);
        a.mac.a[5] = (uint8_t)(a.mac.a[5] & 0xF0);
        p.ops.push_back(mkop(OP_DISCOVER, 5, {M, br, 0, 0x1001 + s, 3, 0, 0, 0}));
        p.ops.push_back(mkop(OP_DISCOVER, 20, {M, br, 1, 0x2002, 4, 0, 0, 0}));
        { Op e = mkop(OP_EMIT, 20, {M, br, 0, 5, -1, 0}); Bytes d = {1, 0}; d.insert(d.end(), a.mac.a, a.mac.a + 6); d.insert(d.end(), {2, 3, 4, 5, 6, 7}); e.blob = d; p.ops.push_back(e); }
        { Op e = mkop(OP_EMIT, 20, {M, br, 0, 6, -1, 0}); Bytes d; for (int k = 0; k < 4; k++) { d.push_back((uint8_t)(k & 1)); d.push_back((uint8_t)(k == 2 ? 3 : 0)); d.insert(d.end(), a.mac.a, a.mac.a + 6); d.insert(d.end(), {2, 3, 4, 5, 6, (uint8_t)k}); } e.blob = d; p.ops.push_back(e); }
        p.ops.push_back(mkop(OP_FLOOD, 10, {3, 3000, 0, 0, 0}));
        p.ops.push_back(mkop(OP_QUERY, 10, {M, br, 0, 7, 0}));
        p.ops.push_back(mkop(OP_QUERY, 10, {M, br, 0, 8, 0}));
        p.ops.push_back(mkop(OP_FLOOD, 10, {(int64_t)((MT[s] - 34) / 20 + 5), 4000, 0, 0, 0}));
        p.ops.push_back(mkop(OP_QUERY, 10, {M, br, 0, 9, 3}));
        p.ops.push_back(mkop(OP_QLT, 10, {M, br, 0, 10, 0x0E, 0, 0}));
        p.ops.push_back(mkop(OP_QLT, 10, {M, br, 0, 11, 0x0E, 100, 0}));
        p.ops.push_back(mkop(OP_QLT, 10, {M, br, 0, 12, 0x11, 0, 0}));
        p.ops.push_back(mkop(OP_QLT, 10, {M, br, 0, 13, 0x13, 0, 0}));
        p.ops.push_back(mkop(OP_QLT, 10, {M, br, 0, 14, 0x77, 0, 0}));
        p.ops.push_back(mkop(OP_QUERY, 10, {M, br, 0, 16, 0})); // a Query while properties are cached
        if (s >= 6) p.ops.push_back(mkop(OP_FETCH, 10, {M, br, 0, 30, s % 2 ? 0x0E : 0x11, 0, 40})); // a whole fetch loop; the fault hits its first request
        if (s >= 8) p.ops.push_back(mkop(OP_CHARGE, 10, {M, 0, 0, 15}));
        p.ops.push_back(mkop(OP_FLOOD, 10, {2, 5000, 0, 0, 0}));
        int reset_at = (int)p.ops.size();
        (void)reset_at;
        p.ops.push_back(mkop(OP_RESET, 30, {M, -1, 0, 0, 0, 0}));
        // tail after the Reset: compared against a freshly started twin
        p.ops.push_back(mkop(OP_DISCOVER, 20, {1, -1, 0, 0x5005, 21, 0, 0, 0}));
        p.ops.push_back(mkop(OP_FLOOD, 10, {2, 6000, 0, 0, 0}));
        p.ops.push_back(mkop(OP_QUERY, 10, {1, -1, 0, 22, 0}));
        p.ops.push_back(mkop(OP_QLT, 10, {1, -1, 0, 23, 0x0E, 0, 0}));
        p.ops.push_back(mkop(OP_QLT, 10, {1, -1, 0, 24, 0x11, 0, 0}));
        { Op e = mkop(OP_EMIT, 20, {1, -1, 0, 25, -1, 0}); Bytes d = {0, 1}; d.insert(d.end(), a.mac.a, a.mac.a + 6); d.insert(d.end(), {9, 9, 9, 9, 9, 9}); e.blob = d; p.ops.push_back(e); }
        out.push_back(p);
    }
    // two interfaces, the second one seen for the first time (its per-interface state is allocated then) while the first is in the
    // middle of a session with properties cached: the fault hits interface B, the oracles watch A as well
    for (int s = 12; s < (thorough ? 15 : 13); s++) {
        Plan p;
        p.prop = "C18"; p.family = s; p.seed = 1800 + s; p.t0 = 7000 + 1000 * s; p.mac_seed = 0xC18 + s; p.memfill = s % 2 ? 0xFE : 0xA5; p.memfill_seed = 99 + s;
        p.latency = 1; p.twin = true; p.tail_ms = 600; p.isolate = true; // two segments: what A transmits does not reach B
        for (int k = 0; k < 2; k++) { NodeCfg n; n.glue = (s == 14 && k == 0) ? GLUE_DARWIN : (s == 13 ? GLUE_LEGACY : GLUE_BARE); n.mtu = k ? 1500 : MT[s - 12]; n.attr_seed = 4300 + s * 7 + k; n.wifi = k == 1; n.rxfill = 0; p.nodes.push_back(n); }
        auto only = [](Op o, int node) { o.only = node; return o; };
        p.ops.push_back(only(mkop(OP_DISCOVER, 5, {0, -1, 0, 0x1001 + s, 3, 0, 0, 0}), 0));
        p.ops.push_back(mkop(OP_QLT, 10, {0, -1, 0, 10, 0x0E, 0, 0}));
        p.ops.push_back(mkop(OP_QLT, 10, {0, -1, 0, 11, 0x11, 0, 0}));
        p.ops.push_back(mkop(OP_FLOOD, 10, {3, 3000, 0, 0, 0}));
        p.ops.push_back(only(mkop(OP_DISCOVER, 20, {0, -1, 0, 0x1001 + s, 4, 0, 0, 0}), 1)); // B's first frame ever
        p.ops.push_back(mkop(OP_QLT, 10, {0, -1, 1, 12, 0x0E, 0, 0}));
        p.ops.push_back(mkop(OP_QLT, 10, {0, -1, 0, 13, 0x0E, 100, 0}));
        p.ops.push_back(mkop(OP_QUERY, 10, {0, -1, 0, 14, 0}));
        p.ops.push_back(mkop(OP_QLT, 10, {0, -1, 1, 15, 0x11, 0, 0}));
        p.ops.push_back(mkop(OP_RESET, 30, {0, -1, 0, 0, 0, 0}));
        p.ops.push_back(mkop(OP_DISCOVER, 20, {1, -1, 0, 0x5005, 21, 0, 0, 0}));
        p.ops.push_back(mkop(OP_QLT, 10, {1, -1, 0, 23, 0x0E, 0, 0}));
        p.ops.push_back(mkop(OP_QLT, 10, {1, -1, 1, 24, 0x0E, 0, 0}));
        p.ops.push_back(mkop(OP_QLT, 10, {1, -1, 0, 25, 0x11, 0, 0}));
        out.push_back(p);
    }
    // the link's MTU shrinks in place between two Emits; the second one over-declares (every getter subset, MTU included, fails on it)
    for (int s = 15; s < (thorough ? 17 : 16); s++) {
        Plan p;
        p.prop = "C18"; p.family = s; p.seed = 1800 + s; p.t0 = 7000 + 1000 * s; p.mac_seed = 0xC18 + s; p.memfill = s % 2 ? 0xFE : 0xA5; p.memfill_seed = 99 + s;
        p.latency = 1; p.twin = true; p.tail_ms = 600;
        NodeCfg n; n.glue = s == 16 ? GLUE_DARWIN : GLUE_BARE; n.mtu = s == 16 ? 4096 : 9000; n.attr_seed = 4400 + s * 7; n.wifi = false; n.rxfill = 0;
        p.nodes.push_back(n);
        Attr a = make_attr(n.attr_seed, n.wifi);
        a.mac.a[5] = (uint8_t)(a.mac.a[5] & 0xF0);
        auto emit = [&](int seq, size_t carried, int64_t declared) { Op e = mkop(OP_EMIT, 20, {0, -1, 0, seq, declared, 0}); Bytes d; for (size_t k = 0; k < carried; k++) { d.push_back((uint8_t)(k & 1)); d.push_back(0); d.insert(d.end(), a.mac.a, a.mac.a + 6); d.insert(d.end(), {2, 3, 4, 5, 6, (uint8_t)k}); } e.blob = d; return e; };
        p.ops.push_back(mkop(OP_DISCOVER, 5, {0, -1, 0, 0x1001 + s, 3, 0, 0, 0}));
        p.ops.push_back(emit(5, 3, -1));
        p.ops.push_back(mkop(OP_QLT, 10, {0, -1, 0, 6, 0x0E, 0, 0}));
        p.ops.push_back(mkop(OP_ATTR, 10, {0, 0, 0x40000, 576}));
        p.ops.push_back(emit(7, 2, 0xFFFF));
        p.ops.push_back(mkop(OP_QLT, 10, {0, -1, 0, 8, 0x0E, 600, 0}));
        p.ops.push_back(emit(9, 2, -1));
        p.ops.push_back(mkop(OP_RESET, 30, {0, -1, 0, 0, 0, 0}));
        p.ops.push_back(mkop(OP_DISCOVER, 20, {1, -1, 0, 0x5005, 21, 0, 0, 0}));
        p.ops.push_back(mkop(OP_QLT, 10, {1, -1, 0, 23, 0x0E, 0, 0}));
        p.ops.push_back(emit(25, 2, -1));
        out.push_back(p);
    }
    // constructor scenario
    Plan c;
    c.prop = "C18"; c.family = 100; c.seed = 1899; c.t0 = 9000; c.api_world = false; c.tail_ms = 10;
    NodeCfg n; n.glue = GLUE_BARE; n.mtu = 1500; n.attr_seed = 5;
    c.nodes.push_back(n);
    out.push_back(c);
    return out;
}
struct ChildOut { std::string cls, detail; uint64_t hash = 0; int status = 0; bool crashed = false; std::string crash_text; };
static ChildOut run_in_child(const Plan &p, const std::string &checkprop);
static std::vector<Plan> g_c18_variants;
static void build_c18_variants(const std::string &tier) {
    if (!g_c18_variants.empty()) return;
    bool thorough = tier == "thorough";
    auto sc = c18_scenarios(thorough);
    for (auto &base : sc) {
        if (base.family == 100) {
            for (int which = 0; which < 4; which++)
                for (int k = 1; k <= 3; k++)
                    for (int n = 1; n <= 2; n++) {
                        Plan v = base;
                        Op o = mkop(OP_CTOR, 1, {which});
                        o.f.push_back({F_ALLOCFAIL, k, n});
                        v.ops.push_back(o);
                        g_c18_variants.push_back(v);
                    }
            continue;
        }
        // The fault-free pass is executed in this process to count allocations and transmits per request.  Should the code under test
        // crash on it, do it in a child first: the scenario then stays in the list on its own (a worker meets the crash, the driver
        // classifies and reports it) instead of taking the driver down.
        { ChildOut probe = run_in_child(base, "C18"); if (probe.crashed) { g_c18_variants.push_back(base); continue; } }
        RunResult rb = run_world(base, "NONE", false);
        g_c18_variants.push_back(base); // fault-free pass with every oracle on
        int reset_index = -1;
        for (size_t i = 0; i < base.ops.size(); i++) if (base.ops[i].kind == OP_RESET) { reset_index = (int)i; break; }
        for (int i = 0; i < reset_index; i++) {
            if (base.ops[i].kind == OP_FLOOD) {
                // floods are delivered inline without op faults: use a PROBE op instead
            }
            uint64_t na = rb.op_counts.count(i) ? rb.op_counts[i].first : 0, ns = rb.op_counts.count(i) ? rb.op_counts[i].second : 0;
            for (uint64_t k = 1; k <= na; k++) {
                for (int n : {1, 2, 99}) { // n consecutive failures from the k-th allocation on: a failure path may allocate where the fault-free run does not (retries)
                    Plan v = base; v.ops[i].f.push_back({F_ALLOCFAIL, (int64_t)k, n}); g_c18_variants.push_back(v);
                }
            }
            for (uint64_t j = 0; j < ns && j < 62; j++) { Plan v = base; v.ops[i].f.push_back({F_SENDFAIL, (int64_t)(1ull << j), 0}); g_c18_variants.push_back(v); }
            if (ns > 0) { Plan v = base; v.ops[i].f.push_back({F_SENDFAIL, (int64_t)0x3FFFFFFFFFFFFFFFll, 0}); g_c18_variants.push_back(v); }
            if (ns > 2) { Plan v = base; v.ops[i].f.push_back({F_SENDFAIL, 0x6, 0}); g_c18_variants.push_back(v); }
            if (thorough) { // pairs of faults on one request: an allocation failure together with a refused transmit
                for (uint64_t k = 1; k <= na && k <= 6; k++)
                    for (uint64_t j = 0; j < ns && j < 4; j++) { Plan v = base; v.ops[i].f.push_back({F_ALLOCFAIL, (int64_t)k, 1}); v.ops[i].f.push_back({F_SENDFAIL, (int64_t)(1ull << j), 0}); g_c18_variants.push_back(v); }
                // the same allocation index failing on two consecutive requests
                if (i + 1 < reset_index) for (uint64_t k = 1; k <= na && k <= 3; k++) { Plan v = base; v.ops[i].f.push_back({F_ALLOCFAIL, (int64_t)k, 1}); v.ops[i + 1].f.push_back({F_ALLOCFAIL, (int64_t)k, 1}); g_c18_variants.push_back(v); }
            }
            if (na > 0) {
                static const uint32_t G[4] = {G_MTU, G_MAC, G_ICON | G_FNAME | G_HWID, G_HOSTNAME | G_WIFIMODE};
                int lim = tier == "thorough" ? 16 : 16;
                for (int m = 1; m < lim; m++) {
                    uint32_t mask = 0;
                    for (int b = 0; b < 4; b++) if (m & (1 << b)) mask |= G[b];
                    Plan v = base; v.ops[i].f.push_back({F_GETFAIL, (int64_t)mask, 0}); g_c18_variants.push_back(v);
                }
            }
        }
    }
}

// ---------------------------------------------------------------- known findings
struct Known { std::string prop, cls, key, text; bool fixed; };
static std::vector<Known> load_known(const std::string &path) {
    std::vector<Known> k;
    std::ifstream in(path);
    std::string line;
    while (std::getline(in, line)) {
        if (line.compare(0, 6, "known:") != 0) continue;
        Known e;
        e.fixed = false;
        auto grab = [&](const std::string &tag) -> std::string {
            auto p = line.find(tag + "=");
            if (p == std::string::npos) return "";
            p += tag.size() + 1;
            if (p < line.size() && line[p] == '"') { auto q = line.find('"', p + 1); return line.substr(p + 1, q - p - 1); }
            auto q = line.find(' ', p);
            return line.substr(p, q == std::string::npos ? std::string::npos : q - p);
        };
        e.prop = grab("property"); e.cls = grab("class"); e.key = grab("key");
        auto t = line.find("::");
        if (t != std::string::npos) e.text = line.substr(t + 2);
        k.push_back(e);
    }
    return k;
}
static const Known *match_known(const std::vector<Known> &ks, const std::string &prop, const std::string &cls, const std::string &detail) {
    for (auto &k : ks) if (k.prop == prop && k.cls == cls && (k.key.empty() || detail.find(k.key) != std::string::npos)) return &k;
    return nullptr;
}

// ---------------------------------------------------------------- child execution of one plan (crash-safe)
static std::string g_tmpdir;
static std::string classify_crash(const std::string &txt, std::string &detail) {
    // AddressSanitizer / UBSan report -> stable class
    std::string kind = "abnormal-exit";
    size_t p;
    if ((p = txt.find("ERROR: AddressSanitizer: ")) != std::string::npos) {
        size_t q = txt.find_first_of(" \n", p + 25);
        kind = "asan-" + txt.substr(p + 25, q - (p + 25));
    } else if ((p = txt.find("runtime error: ")) != std::string::npos) {
        size_t q = txt.find('\n', p);
        std::string msg = txt.substr(p + 15, q - (p + 15));
        kind = "ubsan";
        if (msg.find("shift") != std::string::npos) kind = "ubsan-shift";
        else if (msg.find("overflow") != std::string::npos) kind = "ubsan-overflow";
        else if (msg.find("null") != std::string::npos) kind = "ubsan-null";
        else if (msg.find("misaligned") != std::string::npos) kind = "ubsan-misaligned";
        else if (msg.find("out of bounds") != std::string::npos) kind = "ubsan-bounds";
    }
    // first frame inside the repository sources
    std::string where;
    std::istringstream is(txt);
    std::string line;
    while (std::getline(is, line)) {
        if (line.find("runtime error:") != std::string::npos && where.empty()) {
            auto c = line.find(": runtime error");
            std::string loc = line.substr(0, c);
            auto sl = loc.rfind('/');
            where = loc.substr(sl == std::string::npos ? 0 : sl + 1);
            auto col = where.rfind(':'); // drop the column
            if (col != std::string::npos && where.find(':') != col) where = where.substr(0, col);
            break;
        }
        auto in = line.find(" in ");
        if (line.find("    #") != std::string::npos && in != std::string::npos && (line.find("lltdResponder/") != std::string::npos || line.find("/os/") != std::string::npos)) {
            std::string rest = line.substr(in + 4);
            where = rest.substr(0, rest.find(' '));
            break;
        }
    }
    // the class names the place only: what a wild access hits (redzone, freed block, unmapped page) depends on the heap layout of the process
    detail = kind + (where.empty() ? "" : " in " + where);
    return "C01:crash" + (where.empty() ? "" : "@" + where);
}
static std::string read_file(const std::string &p) { std::ifstream f(p); std::stringstream s; s << f.rdbuf(); return s.str(); }

static ChildOut run_in_child(const Plan &p, const std::string &checkprop) {
    ChildOut out;
    int fd[2];
    if (pipe(fd) != 0) { perror("pipe"); exit(2); }
    std::string errf = g_tmpdir + "/child." + std::to_string(getpid()) + ".err";
    fflush(stdout);
    pid_t pid = fork();
    if (pid == 0) {
        close(fd[0]);
        int e = open(errf.c_str(), O_WRONLY | O_CREAT | O_TRUNC, 0644);
        if (e >= 0) { dup2(e, 2); close(e); }
        alarm(120);
        RunResult r = run_plan(p, false);
        const Violation *v = relevant(checkprop, r);
        std::string s = (v ? vclass(*v) : std::string("-")) + "\n" + std::to_string(r.hash) + "\n" + (v ? v->detail : std::string("")) + "\n";
        ssize_t wr = write(fd[1], s.data(), s.size());
        (void)wr;
        _exit(0);
    }
    close(fd[1]);
    std::string buf;
    char tmp[4096];
    ssize_t n;
    while ((n = read(fd[0], tmp, sizeof tmp)) > 0) buf.append(tmp, (size_t)n);
    close(fd[0]);
    int st = 0;
    waitpid(pid, &st, 0);
    out.status = st;
    if (WIFEXITED(st) && WEXITSTATUS(st) == 0 && !buf.empty()) {
        std::istringstream is(buf);
        std::string c, h, d;
        std::getline(is, c); std::getline(is, h); std::getline(is, d);
        out.cls = c == "-" ? "" : c; out.hash = strtoull(h.c_str(), 0, 10); out.detail = d;
    } else {
        out.crashed = true;
        out.crash_text = read_file(errf);
        out.cls = classify_crash(out.crash_text, out.detail);
        // a crash while the property's own workload runs breaks that property as well (the expected reaction never comes)
        out.cls = checkprop + ":" + out.cls.substr(4);
    }
    unlink(errf.c_str());
    return out;
}

// ---------------------------------------------------------------- minimisation (ddmin over operations, then faults)
static std::vector<Known> g_known;
static Plan minimise(const Plan &p0, const std::string &checkprop, const std::string &cls, int &tests) {
    Plan best = p0;
    // same class, and not sliding into a listed known finding of that class
    auto fails = [&](const Plan &c) { tests++; ChildOut o = run_in_child(c, checkprop); return o.cls == cls && !match_known(g_known, checkprop, o.cls, o.detail); };
    // ddmin on ops
    size_t n = 2;
    while (best.ops.size() >= 2 && tests < 400) {
        size_t len = best.ops.size(), chunk = (len + n - 1) / n;
        bool reduced = false;
        for (size_t start = 0; start < len; start += chunk) {
            Plan c = best;
            size_t e = std::min(len, start + chunk);
            uint32_t carried = 0;
            for (size_t i = start; i < e; i++) carried += best.ops[i].dt;
            c.ops.erase(c.ops.begin() + start, c.ops.begin() + e);
            if (start < c.ops.size()) c.ops[start].dt += carried; // keep absolute times of the survivors
            if (!c.ops.empty() && fails(c)) { best = c; n = std::max<size_t>(n - 1, 2); reduced = true; break; }
        }
        if (!reduced) { if (n >= len) break; n = std::min(len, n * 2); }
    }
    // drop faults, one at a time
    for (size_t i = 0; i < best.ops.size() && tests < 600; i++)
        for (size_t j = 0; j < best.ops[i].f.size();) {
            Plan c = best;
            c.ops[i].f.erase(c.ops[i].f.begin() + j);
            if (fails(c)) best = c; else j++;
        }
    // simplify: fewer nodes, shorter tail, zero gaps
    while (best.nodes.size() > 1 && checkprop != "C17" && checkprop != "C10" && tests < 650) { Plan c = best; c.nodes.pop_back(); if (fails(c)) best = c; else break; }
    { Plan c = best; c.tail_ms = std::min<uint32_t>(c.tail_ms, 300); if (tests < 700 && c.tail_ms != best.tail_ms && fails(c)) best = c; }
    for (size_t i = 0; i < best.ops.size() && tests < 760; i++) if (best.ops[i].dt > 5) { Plan c = best; c.ops[i].dt = 5; if (fails(c)) best = c; }
    return best;
}

// ---------------------------------------------------------------- worker protocol
struct Shm { volatile uint64_t cur[64]; volatile uint64_t done[64]; volatile uint64_t stop; };
static Shm *g_shm = nullptr;

struct Agg {
    Stats st;
    uint64_t runs = 0, nontrivial = 0, rerun_checked = 0, rerun_mismatch = 0;
    std::unordered_set<uint64_t> distinct;
    std::vector<std::pair<uint64_t, std::string>> violations; // (index, class \t detail)
    std::vector<std::string> samples;
    std::map<int, uint64_t> fault_configured;
    std::map<int, uint64_t> families;
};
static void write_agg(const Agg &a, const std::string &path) {
    std::ofstream f(path);
    f << "runs " << a.runs << "\nnontrivial " << a.nontrivial << "\nrerun " << a.rerun_checked << " " << a.rerun_mismatch << "\n";
    f << "stats " << a.st.deliveries << " " << a.st.ticks << " " << a.st.txs << " " << a.st.events << " " << a.st.sim_ms << " " << a.st.api_ops << "\n";
    f << "faults"; for (int i = 0; i < F_KIND_MAX; i++) f << " " << a.st.fault_fired[i]; f << "\n";
    f << "probes"; for (int i = 0; i < PROBE_MAX; i++) f << " " << a.st.probes[i]; f << "\n";
    for (auto &kv : a.fault_configured) f << "fcfg " << kv.first << " " << kv.second << "\n";
    for (auto &kv : a.families) f << "fam " << kv.first << " " << kv.second << "\n";
    for (auto &kv : a.st.named) f << "named " << kv.first << " " << kv.second << "\n";
    for (auto c : a.st.cells) f << "cell " << c << "\n";
    for (auto h : a.distinct) f << "h " << h << "\n";
    for (auto &v : a.violations) f << "viol " << v.first << " " << v.second << "\n";
    for (auto &s : a.samples) f << "sample " << s << "\n";
}
static void read_agg(Agg &a, const std::string &path) {
    std::ifstream f(path);
    std::string line;
    while (std::getline(f, line)) {
        std::istringstream is(line);
        std::string k;
        is >> k;
        if (k == "runs") { uint64_t v; is >> v; a.runs += v; }
        else if (k == "nontrivial") { uint64_t v; is >> v; a.nontrivial += v; }
        else if (k == "rerun") { uint64_t x, y; is >> x >> y; a.rerun_checked += x; a.rerun_mismatch += y; }
        else if (k == "stats") { uint64_t v[6]; for (auto &x : v) is >> x; a.st.deliveries += v[0]; a.st.ticks += v[1]; a.st.txs += v[2]; a.st.events += v[3]; a.st.sim_ms += v[4]; a.st.api_ops += v[5]; }
        else if (k == "faults") { for (int i = 0; i < F_KIND_MAX; i++) { uint64_t v; is >> v; a.st.fault_fired[i] += v; } }
        else if (k == "probes") { for (int i = 0; i < PROBE_MAX; i++) { uint64_t v; is >> v; a.st.probes[i] += v; } }
        else if (k == "fcfg") { int i; uint64_t v; is >> i >> v; a.fault_configured[i] += v; }
        else if (k == "fam") { int i; uint64_t v; is >> i >> v; a.families[i] += v; }
        else if (k == "named") { std::string n; uint64_t v; is >> n >> v; a.st.named[n] += v; }
        else if (k == "cell") { uint64_t v; is >> v; a.st.cells.insert(v); }
        else if (k == "h") { uint64_t v; is >> v; a.distinct.insert(v); }
        else if (k == "viol") { uint64_t i; is >> i; std::string rest; std::getline(is, rest); a.violations.push_back({i, rest.size() ? rest.substr(1) : rest}); }
        else if (k == "sample") { std::string rest; std::getline(is, rest); if (a.samples.size() < 6) a.samples.push_back(rest.size() ? rest.substr(1) : rest); }
    }
}

static const std::map<std::string, std::vector<std::string>> NONTRIVIAL = {
    {"C01", {"c01_short_frame", "c01_emit_overdeclared", "c01_discover_overdeclared", "c01_qlt", "c01_foreign_tos", "c01_zero_len"}},
    {"C02", {"c02_solicited_hello", "c02_solicited_emit", "c02_solicited_queryresp", "c02_solicited_qltresp"}},
    {"C03", {"c03_accepted_discover"}},
    {"C04", {"c04_solicited_hello_checked", "c04_periodic_hello_checked"}},
    {"C05", {"c05_accept_replied", "c05_reject_expected", "c05_foreign_discover"}},
    {"C06", {"c06_wellformed_emit", "c06_overdeclared_emit"}},
    {"C07", {"c07_query_with_pending"}},
    {"C08", {"c08_icon_request", "c08_fname_request", "c08_hwid_request", "c08_unknown_type", "c08_seq_zero"}},
    {"C09", {"twin_compared_nonempty"}},
    {"C10", {"c10_probe_delivered_to_peer"}},
    {"C11", {"c11_classified"}},
    {"C12", {"c12_periodic_hello", "c12_suppressed", "c12_table_emptied_by_tick"}},
    {"C13", {"c13_block_end_injected_r", "c13_block_end_real_r"}},
    {"C14", {"c14_passive_step", "c14_inactive_tick", "c14_api_step"}},
    {"C15", {"c15_passive_step", "c15_api_step"}},
    {"C16", {"c16_add_new", "c16_refresh"}},
    {"C17", {"c17_nonempty_trace_compared"}},
    {"C18", {"c18_subset_checked", "ctor_returned_null", "ctor_returned_object", "twin_compared"}},
    {"C19", {"c19_retained_allocation"}},
};

static std::string plan_sample(const Plan &p) {
    std::string s = "nodes=" + std::to_string(p.nodes.size()) + " glue0=" + std::to_string(p.nodes[0].glue) + " mtu0=" + std::to_string(p.nodes[0].mtu) + " ops=" + std::to_string(p.ops.size()) + " [";
    for (size_t i = 0; i < p.ops.size() && i < 10; i++) {
        s += (i ? "; " : "") + std::string(op_name(p.ops[i].kind)) + "(";
        for (int k = 0; k < 5; k++) s += (k ? "," : "") + std::to_string(p.ops[i].a[k]);
        s += ")";
        for (auto &f : p.ops[i].f) s += std::string("+") + fault_name(f.kind) + ":" + std::to_string(f.a);
    }
    if (p.ops.size() > 10) s += "; ...";
    return s + "]";
}

static std::string g_abi; // --abi: recorded in every plan this process writes
static Plan plan_for(const std::string &prop, uint64_t vseed, uint64_t index, const std::string &tier) {
    if (prop == "C18") { build_c18_variants(tier); Plan p = g_c18_variants[index % g_c18_variants.size()]; p.abi = g_abi; return p; }
    Plan p = generate_plan_indexed(prop, vseed, index, tier);
    p.abi = g_abi;
    return p;
}

static void worker_main(int wid, int nworkers, const std::string &prop, uint64_t vseed, const std::string &tier, uint64_t start, uint64_t max_runs, double deadline, const std::string &resfile) {
    Agg a;
    const std::vector<std::string> *nt = NONTRIVIAL.count(prop) ? &NONTRIVIAL.at(prop) : nullptr;
    uint64_t idx = start;
    double last_ckpt = now_s();
    FILE *dumpf = nullptr; // determinism self-test: per-index log hashes
    if (const char *d = getenv("VERIF_DUMP_HASHES")) dumpf = fopen((std::string(d) + "." + std::to_string(wid)).c_str(), "w");
    for (; idx < max_runs; idx += (uint64_t)nworkers) {
        if (now_s() > deadline) break;
        if (g_shm->stop) break;
        g_shm->cur[wid] = idx + 1;
        Plan p = plan_for(prop, vseed, idx, tier);
        double t_run = now_s();
        RunResult r = run_plan(p, false);
        a.runs++;
        if (now_s() - t_run > 3.0) { // budget hygiene: single runs that eat seconds are logged (index, seconds, family, ops, deliveries)
            a.st.named["slow_runs_over_3s"]++;
            if (FILE *sf = fopen((g_tmpdir + "/../slow-runs.log").c_str(), "a")) { fprintf(sf, "%s idx=%llu secs=%.1f family=%d ops=%zu deliveries=%llu tier=%s\n", prop.c_str(), (unsigned long long)idx, now_s() - t_run, p.family, p.ops.size(), (unsigned long long)r.st.deliveries, tier.c_str()); fclose(sf); }
        }
        if (dumpf) fprintf(dumpf, "%llu %llu\n", (unsigned long long)idx, (unsigned long long)r.hash);
        merge_stats(a.st, r.st);
        a.families[p.family]++;
        { std::set<int> kinds; for (auto &o : p.ops) for (auto &f : o.f) kinds.insert(f.kind); for (int k : kinds) a.fault_configured[k]++; }
        bool nontriv = false;
        if (nt) for (auto &n : *nt) if (r.st.named.count(n)) nontriv = true;
        if (nontriv) { a.nontrivial++; a.distinct.insert(r.abstract ^ (r.hash * 0)); if (a.samples.size() < 3) a.samples.push_back(plan_sample(p)); }
        if (const Violation *v = relevant(prop, r)) {
            a.violations.push_back({idx, vclass(*v) + "\t" + v->detail});
            { std::ofstream vf(resfile + ".viol", std::ios::app); vf << "viol " << idx << " " << vclass(*v) << "\t" << v->detail << "\n"; }
            if (a.violations.size() > 200) break;
        }
        // determinism self-check on a sample of seeds: same plan, same log hash
        if (idx % 97 == 0 && r.v.empty()) {
            RunResult r2 = run_plan(p, false);
            a.rerun_checked++;
            if (r2.hash != r.hash) a.rerun_mismatch++;
        }
        g_shm->done[wid] = idx + 1;
        if ((a.runs & 63) == 0) { double t = now_s(); if (t - last_ckpt > 1.0) { write_agg(a, resfile + ".tmp"); rename((resfile + ".tmp").c_str(), resfile.c_str()); last_ckpt = t; } }
    }
    g_shm->cur[wid] = 0;
    if (dumpf) fclose(dumpf);
    write_agg(a, resfile);
}

// ---------------------------------------------------------------- evidence
static std::string jesc(const std::string &s) {
    std::string o;
    for (char c : s) { if (c == '"' || c == '\\') { o += '\\'; o += c; } else if (c == '\n') o += "\\n"; else if (c == '\t') o += " "; else if ((unsigned char)c < 0x20) o += ' '; else o += c; }
    return o;
}
struct PropMeta { const char *level; const char *rule; const char *real; const char *stub; };
static PropMeta meta_for(const std::string &p) {
    static const char *REAL = "core (lltdBlock.c, lltdAutomata.c, lltdTlvOps.c, lltdWire.c) built from the working tree without LLTD_TESTING; os/esp32/daemon/lltd_esp32.c";
    static const char *STUB = "verification port (clock, ledger allocator, transport, attribute getters); Darwin and legacy receive-loop bodies transcribed in sim/glue.c; mapper, noise and peer stations are simulator models";
    PropMeta m{"exploration", "", REAL, STUB};
    if (p == "C18") m.level = "fault_enumeration";
    return m;
}
static const char *RULES(const std::string &p) {
    if (p == "C18") return "cases = (scenario, request, fault) triples enumerated systematically: every k-th allocation of every request of 6 (thorough: 12, plus fault pairs) fixed multi-request scenarios (single, double and all-from-k failures), every single send index and bursts, all 15 non-empty subsets of 4 getter groups, 24 constructor fault points; a case is non-trivial when the injected fault actually fired or a constructor was probed; distinct = distinct abstract traces (per delivery: opcode, ToS class, number and opcodes of replies, fault flag) among those";
    if (p == "C05") return "plans: stratified sweep (run index i < 131072 visits (state, ToS, opcode) = (i>>16, (i>>8)&255, i&255)) followed by seeded random histories over 3-5 stations; non-trivial = a Discover was decided by the reference model (accepted+answered, rejection expected, or foreign-service Discover); distinct = distinct abstract traces (sequence of delivered opcode, ToS class, reply count and opcodes) among those; cells = distinct (state, ToS, opcode) triples delivered";
    if (p == "C14") return "plans: stratified single steps (index i < 5760 visits (state, input in [-128,255], elapsed class)) then seeded walks over switch/advance/tick/add/charge; non-trivial = the passive or tick oracle fired, or a stratified cell; distinct = distinct abstract traces; cells = (state, input, elapsed class) visited";
    if (p == "C15") return "plans: stratified single steps (index i < 160 visits (state, event 0..7, elapsed class)) then seeded walks; distinct = distinct abstract traces (op kind, resulting states); cells = (state, event, elapsed class) visited";
    return "plans generated from mix(VERIF_SEED, property, run index); a run is non-trivial when the property's oracle was exercised at least once (named probe of that oracle fired, see nontrivial_probes); distinct = number of distinct abstract traces among non-trivial runs, an abstract trace being the per-delivery sequence (opcode, ToS class, number and opcodes of frames sent in reply, internal-fault flag) or, for API walks, the per-operation sequence (operation, resulting automaton states, table size)";
}

int main(int argc, char **argv) {
    setvbuf(stdout, nullptr, _IOLBF, 0);
    snapshot_core();
    std::string mode = argc > 1 ? argv[1] : "";
    std::string prop, tier = "quick", replay_file, evidence_path, replay_dir = "replays", known_path = "KNOWN_FINDINGS.txt", tmpdir = "build/tmp";
    uint64_t vseed = 20261003, max_runs = 0;
    double secs = 0;
    int workers = 16;
    bool verbose = false, no_minimise = false;
    if (const char *e = getenv("VERIF_SEED")) vseed = strtoull(e, 0, 10);
    if (const char *e = getenv("VERIF_TIER")) tier = e;
    for (int i = 2; i < argc; i++) {
        std::string a = argv[i];
        auto nxt = [&]() -> std::string { return i + 1 < argc ? argv[++i] : ""; };
        if (a == "--tier") tier = nxt();
        else if (a == "--seed") vseed = strtoull(nxt().c_str(), 0, 10);
        else if (a == "--runs") max_runs = strtoull(nxt().c_str(), 0, 10);
        else if (a == "--secs") secs = atof(nxt().c_str());
        else if (a == "--workers") workers = atoi(nxt().c_str());
        else if (a == "--evidence") evidence_path = nxt();
        else if (a == "--replays") replay_dir = nxt();
        else if (a == "--known") known_path = nxt();
        else if (a == "--tmp") tmpdir = nxt();
        else if (a == "--verbose") verbose = true;
        else if (a == "--abi") g_abi = nxt();
        else if (a == "--no-minimise") no_minimise = true;
        else if (prop.empty() && a[0] != '-') prop = a;
    }
    g_tmpdir = tmpdir;
    mkdir(tmpdir.c_str(), 0755);
    if (workers < 1) workers = 1;
    if (workers > 64) workers = 64;

    if (mode == "replay") {
        std::string text = read_file(prop), err;
        Plan p;
        if (!plan_from_text(text, p, err)) { fprintf(stderr, "bad plan: %s\n", err.c_str()); return 2; }
        if (verbose) {
            RunResult r = run_plan(p, true);
            for (auto &l : r.vlog) printf("%s\n", l.c_str());
            for (auto &v : r.v) printf("violation %s: %s\n", vclass(v).c_str(), v.detail.c_str());
            printf("hash %llu\n", (unsigned long long)r.hash);
            return r.v.empty() ? 0 : 1;
        }
        ChildOut o = run_in_child(p, p.prop);
        if (o.crashed && getenv("VERIF_SHOW_CRASH")) fprintf(stderr, "%s\n", o.crash_text.c_str());
        if (o.cls.empty()) { printf("replay: no violation (hash %llu)\n", (unsigned long long)o.hash); return 0; }
        printf("replay: class=%s :: %s\n", o.cls.c_str(), o.detail.c_str());
        if (!p.expect_class.empty() && o.cls != p.expect_class) { printf("replay: class differs from recorded %s\n", p.expect_class.c_str()); return 2; }
        if (p.expect_hash && !o.crashed && o.hash != p.expect_hash) { printf("replay: log hash differs from recorded\n"); return 2; }
        printf("VIOLATION property=%s replay=%s\n", p.prop.c_str(), prop.c_str());
        return 1;
    }
    if (mode == "genplan") { // print the plan of one index
        Plan p = plan_for(prop, vseed, max_runs, tier);
        printf("%s", plan_to_text(p).c_str());
        return 0;
    }
    if (mode == "vgrun") { // executed under valgrind (plain flavour): plans start, start+stride, ... in this one process
        uint64_t start = 0, stride = 1;
        for (int i = 2; i < argc; i++) { std::string a = argv[i]; if (a == "--start" && i + 1 < argc) start = strtoull(argv[i + 1], 0, 10); if (a == "--stride" && i + 1 < argc) stride = strtoull(argv[i + 1], 0, 10); }
        for (uint64_t i = start; i < max_runs; i += stride) {
            Plan p = plan_for(prop, vseed, i, tier);
            RunResult r = run_plan(p, false);
            printf("VG-RUN %llu\n", (unsigned long long)i);
            for (auto &v : r.v) printf("VG-VIOLATION %llu %s\t%s\n", (unsigned long long)i, vclass(v).c_str(), v.detail.c_str());
            fflush(stdout);
        }
        return 0;
    }
    if (mode == "vgreplay") { // in-process replay for valgrind
        std::string text = read_file(prop), err;
        Plan p;
        if (!plan_from_text(text, p, err)) return 2;
        RunResult r = run_plan(p, false);
        for (auto &v : r.v) printf("VG-VIOLATION 0 %s\t%s\n", vclass(v).c_str(), v.detail.c_str());
        return r.v.empty() ? 0 : 1;
    }
    if (mode == "hashes") { // determinism self-test helper: print log hashes of indices [0, runs)
        for (uint64_t i = 0; i < max_runs; i++) {
            Plan p = plan_for(prop, vseed, i, tier);
            ChildOut o = run_in_child(p, prop);
            printf("%llu %llu %s\n", (unsigned long long)i, (unsigned long long)o.hash, o.cls.c_str());
        }
        return 0;
    }
    if (mode != "check" || prop.empty()) {
        fprintf(stderr, "usage: lltdsim check <Cnn> [--tier quick|thorough] [--seed N] [--runs N] [--secs S] [--workers W] --evidence <file>\n       lltdsim replay <plan-file> [--verbose]\n");
        return 2;
    }

    // ---- budgets
    bool thorough = tier == "thorough";
    if (secs <= 0) secs = thorough ? 420 : 20;
    if (max_runs == 0) max_runs = thorough ? 400000000ull : 40000000ull;
    if (prop == "C18") { build_c18_variants(tier); max_runs = g_c18_variants.size(); secs = thorough ? 900 : 120; }
    if (prop == "C19" && !thorough) secs = 25;
    double t_start = now_s(), deadline = t_start + secs;
    printf("check %s tier=%s VERIF_SEED=%llu workers=%d budget=%.0fs max_runs=%llu\n", prop.c_str(), tier.c_str(), (unsigned long long)vseed, workers, secs, (unsigned long long)max_runs);

    g_shm = (Shm *)mmap(nullptr, sizeof(Shm), PROT_READ | PROT_WRITE, MAP_SHARED | MAP_ANONYMOUS, -1, 0);
    memset((void *)g_shm, 0, sizeof(Shm));
    std::vector<pid_t> pids(workers, -1);
    std::vector<int> gen(workers, 0);
    std::vector<std::string> resfiles;
    std::vector<std::pair<uint64_t, std::string>> crashes; // (index, stderr text)
    auto spawn = [&](int w, uint64_t start) {
        std::string res = tmpdir + "/w" + std::to_string(w) + "." + std::to_string(gen[w]++) + "." + std::to_string(getpid()) + ".res";
        resfiles.push_back(res);
        std::string errf = tmpdir + "/w" + std::to_string(w) + "." + std::to_string(getpid()) + ".err";
        fflush(stdout);
        pid_t pid = fork();
        if (pid == 0) {
            int e = open(errf.c_str(), O_WRONLY | O_CREAT | O_TRUNC, 0644);
            if (e >= 0) { dup2(e, 2); close(e); }
            worker_main(w, workers, prop, vseed, tier, start, max_runs, deadline, res);
            _exit(0);
        }
        pids[w] = pid;
    };
    for (int w = 0; w < workers; w++) spawn(w, (uint64_t)w);
    int alive = workers;
    uint64_t restarts = 0;
    while (alive > 0) {
        int st = 0;
        pid_t pid = wait(&st);
        if (pid < 0) break;
        int w = -1;
        for (int i = 0; i < workers; i++) if (pids[i] == pid) w = i;
        if (w < 0) continue;
        alive--;
        pids[w] = -1;
        if (!(WIFEXITED(st) && WEXITSTATUS(st) == 0)) {
            uint64_t idx = g_shm->cur[w];
            std::string errf = tmpdir + "/w" + std::to_string(w) + "." + std::to_string(getpid()) + ".err";
            if (idx > 0) {
                crashes.push_back({idx - 1, read_file(errf)});
                restarts++;
                if (crashes.size() < 40 && now_s() < deadline) { spawn(w, idx - 1 + (uint64_t)workers); alive++; }
            }
        }
    }
    Agg a;
    for (auto &f : resfiles) {
        read_agg(a, f); unlink(f.c_str());
        Agg extra; read_agg(extra, f + ".viol"); unlink((f + ".viol").c_str());
        for (auto &v : extra.violations) a.violations.push_back(v);
    }
    for (int w = 0; w < workers; w++) unlink((tmpdir + "/w" + std::to_string(w) + "." + std::to_string(getpid()) + ".err").c_str());
    double t_search = now_s() - t_start;

    // ---- violations: classify, group by class, minimise one representative per class, gate by replay
    auto known = load_known(known_path);
    g_known = known;
    std::map<std::string, std::pair<uint64_t, std::string>> by_class; // class -> (smallest index, detail)
    // one representative per class; occurrences that match a listed known finding are kept apart (by the finding's key), so that a
    // known finding never hides a different violation of the same class
    std::map<std::string, std::string> group_class;
    for (auto &v : a.violations) {
        auto tab = v.second.find('\t');
        std::string cls = v.second.substr(0, tab), det = tab == std::string::npos ? "" : v.second.substr(tab + 1);
        std::string g = cls;
        if (const Known *k = match_known(known, cls.substr(0, cls.find(':')), cls, det)) g = cls + "\t" + k->key;
        group_class[g] = cls;
        if (!by_class.count(g) || v.first < by_class[g].first) by_class[g] = {v.first, det};
    }
    for (auto &c : crashes) {
        std::string det, cls = classify_crash(c.second, det);
        cls = prop + ":" + cls.substr(4);
        group_class[cls] = cls;
        if (!by_class.count(cls) || c.first < by_class[cls].first) by_class[cls] = {c.first, det};
    }
    int n_viol = 0, n_known = 0, harness_fault = 0;
    std::vector<std::string> viol_lines, known_lines, viol_json;
    mkdir(replay_dir.c_str(), 0755);
    mkdir((replay_dir + "/" + prop).c_str(), 0755);
    std::set<std::string> done_classes;
    for (auto &kv : by_class) {
        const std::string &cls0 = group_class[kv.first];
        bool known_group = kv.first != cls0;
        uint64_t idx = kv.second.first;
        std::string cls = cls0;
        std::string vprop = cls.substr(0, cls.find(':'));
        bool counts = vprop == prop || prop == "C18" || (prop == "C02" && (cls == "C08:chunk-relation" || cls == "C08:response-exceeds-mtu" || cls == "C08:response-seq"));
        if (!counts) { printf("NOTE: run %llu hit %s (%s); it belongs to another property's check and is not counted here\n", (unsigned long long)idx, cls.c_str(), kv.second.second.c_str()); continue; }
        Plan p = plan_for(prop, vseed, idx, tier);
        ChildOut first = run_in_child(p, prop);
        if (first.cls != cls) {
            if (first.cls.empty()) {
                // not reproduced in a fresh process: either the harness is not deterministic or the code under test read memory it does not own
                printf("HARNESS: run %llu reported %s in the worker but nothing in isolation\n", (unsigned long long)idx, cls.c_str());
                harness_fault++;
                continue;
            }
            // memory-unsafe code behaves differently in a long-lived worker and in a fresh process (heap layout): the isolated run is the reference
            printf("NOTE: run %llu reported %s in the worker and %s in isolation; using the isolated result\n", (unsigned long long)idx, cls.c_str(), first.cls.c_str());
            cls = first.cls;
        }
        { std::string dk = match_known(known, prop, cls, first.detail) ? kv.first : cls; if (done_classes.count(dk)) continue; done_classes.insert(dk); }
        std::string detail = first.detail;
        (void)known_group;
        if (const Known *k = match_known(known, prop, cls, detail)) {
            n_known++;
            known_lines.push_back("KNOWN-FINDING: property=" + prop + " " + cls + " :: " + detail + (k->text.empty() ? "" : " --" + k->text));
            continue;
        }
        int tests = 0;
        Plan m = no_minimise ? p : minimise(p, prop, cls, tests);
        ChildOut r1 = run_in_child(m, prop), r2 = run_in_child(m, prop);
        // a run whose violation IS "the transmitted bytes are not a function of the inputs" has no stable event log (the bytes are in it):
        // the gate demands the class in every re-execution, not the hash
        bool unstable_by_nature = cls == "C02:uninitialised-memory-on-wire";
        if (r1.cls != cls || r2.cls != cls || (!r1.crashed && !unstable_by_nature && r1.hash != r2.hash) || match_known(known, prop, r1.cls, r1.detail)) { printf("HARNESS: minimised plan for %s does not reproduce deterministically\n", cls.c_str()); harness_fault++; continue; }
        m.expect_class = cls; m.expect_hash = (r1.crashed || unstable_by_nature) ? 0 : r1.hash;
        char name[256];
        snprintf(name, sizeof name, "%s/%s/%llu-%016llx.plan", replay_dir.c_str(), prop.c_str(), (unsigned long long)idx, (unsigned long long)(r1.hash ^ std::hash<std::string>()(cls)));
        { std::ofstream f(name); f << "# " << cls << " :: " << r1.detail << "\n# found at run index " << idx << " VERIF_SEED " << vseed << ", minimised from " << p.ops.size() << " to " << m.ops.size() << " ops in " << tests << " re-executions\n" << plan_to_text(m); }
        // fresh-process replay gate
        std::string cmd = std::string(argv[0]) + " replay " + name + " --tmp " + tmpdir + " > " + tmpdir + "/replay.out 2>&1";
        int rc = system(cmd.c_str());
        std::string rout = read_file(tmpdir + "/replay.out");
        if (!(WIFEXITED(rc) && WEXITSTATUS(rc) == 1) || rout.find("class=" + cls) == std::string::npos) { printf("HARNESS: fresh-process replay of %s did not reproduce %s:\n%s\n", name, cls.c_str(), rout.c_str()); harness_fault++; continue; }
        n_viol++;
        printf("violation class=%s :: %s (run %llu, %zu ops after minimisation)\n", cls.c_str(), r1.detail.c_str(), (unsigned long long)idx, m.ops.size());
        viol_lines.push_back(std::string("VIOLATION property=") + prop + " replay=" + name);
        viol_json.push_back("{\"class\":\"" + jesc(cls) + "\",\"detail\":\"" + jesc(r1.detail) + "\",\"replay\":\"" + jesc(name) + "\",\"run_index\":" + std::to_string(idx) + ",\"ops_after_minimisation\":" + std::to_string(m.ops.size()) + "}");
    }
    double wall = now_s() - t_start;

    // ---- evidence
    if (!evidence_path.empty()) {
        PropMeta pm = meta_for(prop);
        std::ostringstream j;
        uint64_t distinct = a.distinct.size();
        j << "{\n \"property_id\": \"" << prop << "\",\n \"tier\": \"" << (thorough ? "thorough" : "quick") << "\",\n \"seed\": " << vseed << ",\n \"level\": \"" << pm.level << "\",\n";
        j << " \"coverage\": {\n  \"evaluations\": " << a.runs << ",\n  \"distinct_nontrivial\": " << distinct << ",\n  \"nontrivial_runs\": " << a.nontrivial << ",\n";
        j << "  \"rule\": \"" << jesc(RULES(prop)) << "\",\n";
        j << "  \"nontrivial_probes\": [";
        if (NONTRIVIAL.count(prop)) { bool f = true; for (auto &n : NONTRIVIAL.at(prop)) { j << (f ? "" : ",") << "\"" << n << "\""; f = false; } }
        j << "],\n  \"samples\": [";
        for (size_t i = 0; i < a.samples.size() && i < 5; i++) j << (i ? "," : "") << "\n   \"" << jesc(a.samples[i]) << "\"";
        if (a.samples.empty()) j << "\"(no non-trivial run in this batch)\"";
        j << "\n  ],\n";
        j << "  \"runs_per_hour\": " << (uint64_t)(t_search > 0 ? a.runs / t_search * 3600.0 : 0) << ",\n  \"simulated_seconds\": " << a.st.sim_ms / 1000 << ",\n  \"simulated_seconds_note\": \"per run capped at 24 h (clock jumps of 2^15..2^32 s are generated on purpose)\",\n";
        j << "  \"deliveries\": " << a.st.deliveries << ",\n  \"ticks\": " << a.st.ticks << ",\n  \"api_operations\": " << a.st.api_ops << ",\n  \"frames_transmitted\": " << a.st.txs << ",\n  \"events\": " << a.st.events << ",\n";
        j << "  \"faults_fired\": {";
        for (int i = 0; i < F_KIND_MAX; i++) j << (i ? "," : "") << "\"" << fault_name(i) << "\":" << a.st.fault_fired[i];
        j << "},\n  \"faults_configured_in_runs\": {";
        { bool f = true; for (auto &kv : a.fault_configured) { j << (f ? "" : ",") << "\"" << fault_name(kv.first) << "\":" << kv.second; f = false; } }
        j << "},\n  \"generator_families\": {";
        { bool f = true; for (auto &kv : a.families) { j << (f ? "" : ",") << "\"" << kv.first << "\":" << kv.second; f = false; } }
        j << "},\n  \"coverage_cells\": " << a.st.cells.size() << ",\n  \"reach_probes\": {";
        { bool f = true; for (auto &kv : a.st.named) { j << (f ? "" : ",") << "\"" << jesc(kv.first) << "\":" << kv.second; f = false; } }
        j << "},\n  \"glue_probes\": {\"darwin_table_cleared_on_quiescent\":" << a.st.probes[PROBE_DARWIN_TABLE_CLEARED_ON_QUIESCENT] << ",\"darwin_discover_add_failed\":" << a.st.probes[PROBE_DARWIN_DISCOVER_ADD_FAILED] << "},\n";
        j << "  \"determinism_reruns\": " << a.rerun_checked << ",\n  \"determinism_mismatches\": " << a.rerun_mismatch << ",\n";
        j << "  \"worker_restarts_after_crash\": " << restarts << ",\n  \"known_findings_hit\": " << n_known << ",\n";
        j << "  \"violations\": [";
        for (size_t i = 0; i < viol_json.size(); i++) j << (i ? "," : "") << viol_json[i];
        j << "],\n  \"real_components\": \"" << jesc(pm.real) << "\",\n  \"stub_components\": \"" << jesc(pm.stub) << "\",\n  \"transcription\": \"" << jesc(glue_transcription_note()) << "\",\n";
        j << "  \"exhaustive\": false\n },\n";
        j << " \"assumptions\": [\"the core reaches its environment only through lltdPort.h (property C20, not decided here)\", \"Darwin and legacy glue are transcriptions of the daemons' receive loops\", \"sampling: a clean batch is evidence, not proof\"],\n";
        j << " \"wall_s\": " << wall << ",\n \"violations\": " << n_viol << "\n}\n";
        std::ofstream f(evidence_path);
        f << j.str();
    }
    printf("%s: runs=%llu nontrivial=%llu distinct=%zu cells=%zu sim_s=%llu search=%.1fs wall=%.1fs reruns=%llu mismatches=%llu crashes=%zu\n", prop.c_str(), (unsigned long long)a.runs,
           (unsigned long long)a.nontrivial, a.distinct.size(), a.st.cells.size(), (unsigned long long)(a.st.sim_ms / 1000), t_search, wall, (unsigned long long)a.rerun_checked, (unsigned long long)a.rerun_mismatch, crashes.size());
    for (auto &l : known_lines) printf("%s\n", l.c_str());
    for (auto &l : viol_lines) printf("%s\n", l.c_str());
    if (a.rerun_mismatch) { printf("HARNESS: %llu determinism mismatches\n", (unsigned long long)a.rerun_mismatch); return 2; }
    if (harness_fault) return 2;
    return n_viol ? 1 : 0;
}
