// props.cc -- per-property oracles (monitors over deliveries, ticks, API operations).
#include "sim.hh"

using namespace wire;

static std::string fmt(const char *f, ...) __attribute__((format(printf, 1, 2)));
static std::string fmt(const char *f, ...) {
    char b[512];
    va_list ap;
    va_start(ap, f);
    vsnprintf(b, sizeof b, f, ap);
    va_end(ap);
    return b;
}
static inline bool disc_tos(uint8_t t) { return t == 0 || t == 1; }
static inline uint32_t eff_getfail(World &w, const Delivery &d) {
    const Node &n = *w.nodes[d.node];
    uint32_t m = n.attr.failmask | n.cfg.failmask | n.dyn_failmask;
    if (w.plan.ops.size() > (size_t)d.op_index && d.op_index >= 0 && d.internal_fault)
        for (auto &f : w.plan.ops[d.op_index].f) if (f.kind == F_GETFAIL) m |= (uint32_t)f.a;
    return m;
}
static inline uint32_t node_getfail(World &w, int node) {
    const Node &n = *w.nodes[node];
    return n.attr.failmask | n.cfg.failmask | n.dyn_failmask;
}

// ---------------------------------------------------------------- Hello decoding
struct Tlv { uint8_t type; Bytes val; };
struct HelloDec {
    bool ok = false;
    std::string err;
    uint16_t gen = 0;
    Mac cur, app;
    std::vector<Tlv> tlvs;
    const Tlv *find(uint8_t t) const { for (auto &x : tlvs) if (x.type == t) return &x; return nullptr; }
};
static HelloDec decode_hello(const Bytes &f) {
    HelloDec h;
    if (f.size() < 47) { h.err = "hello shorter than header + end marker"; return h; }
    h.gen = be16(&f[32]); h.cur = mac_at(&f[34]); h.app = mac_at(&f[40]);
    size_t p = 46;
    for (;;) {
        if (p >= f.size()) { h.err = "property list runs off the frame without an end marker"; return h; }
        uint8_t t = f[p];
        if (t == 0) {
            if (p != f.size() - 1) { h.err = fmt("end marker at %zu is not the last byte (len %zu)", p, f.size()); return h; }
            break;
        }
        if (p + 2 > f.size()) { h.err = "truncated TLV header"; return h; }
        uint8_t l = f[p + 1];
        if (p + 2 + l > f.size()) { h.err = fmt("TLV 0x%02x length %u overruns the frame", t, l); return h; }
        Tlv tv;
        tv.type = t; tv.val.assign(f.begin() + p + 2, f.begin() + p + 2 + l);
        h.tlvs.push_back(tv);
        p += 2 + l;
    }
    h.ok = true;
    return h;
}
// legal lengths (MS-LLTD 2.2.4): exact (>=0) or maximum (encoded as -max-1)
static int legal_len(uint8_t t) {
    switch (t) {
    case 0x01: return 6; case 0x02: return 4; case 0x03: return 4; case 0x04: return 1; case 0x05: return 6; case 0x06: return -33;
    case 0x07: return 4; case 0x08: return 16; case 0x09: return 2; case 0x0A: return 8; case 0x0C: return 4; case 0x0D: return 4;
    case 0x0E: return 0; case 0x0F: return -33; case 0x10: return -65; case 0x11: return 0; case 0x12: return 16; case 0x13: return -65;
    case 0x14: return 4;
    default: return -1000; // types outside the table: any length that parses
    }
}

// ---------------------------------------------------------------- mapper arbitration reference model (C05, used by C03/C06)
struct ArbModel {
    bool none_possible = true;
    std::set<Mac> active;
    bool all_accept(const Mac &s) const { for (auto &m : active) if (m != s) return false; return true; }
    bool all_reject(const Mac &s) const { return !none_possible && !active.count(s); }
    bool certainly_active(const Mac &s) const { return !none_possible && active.size() == 1 && active.count(s); }
    void on_discover(const Mac &s, bool replied, bool faulted) {
        if (replied) { active.clear(); active.insert(s); none_possible = false; }
        else if (faulted) { bool acc = none_possible || active.count(s); if (acc) active.insert(s); } // a platform fault before or after the role was latched: taken or unchanged, both stay possible
        else { none_possible = false; active.erase(s); }
    }
    void on_reset() { none_possible = true; active.clear(); }
    void on_command(const Mac &s) { active.insert(s); /* None -> {None, Active(s)}; Active(m) -> {Active(m), Active(s)} */ }
};
// drive one ArbModel per node from the effective frames; shared by several monitors
struct ArbTracker {
    std::map<int, ArbModel> m;
    // returns: -1 not a discovery-service Discover; 0 certain reject; 1 certain accept; 2 either
    int classify(const Delivery &d) {
        if (!d.ran || !disc_tos(d.buf[OFF_TOS]) || d.buf[OFF_OP] != W_DISCOVER) return -1;
        ArbModel &a = m[d.node];
        Mac s = mac_at(d.buf + OFF_RSRC);
        if (a.all_accept(s)) return 1;
        if (a.all_reject(s)) return 0;
        return 2;
    }
    static bool sent_hello(const Delivery &d) {
        for (auto &tx : d.txs) if (tx.channel == 0 && tx.data.size() >= 32 && tx.data[OFF_OP] == W_HELLO) return true;
        return false;
    }
    void update(const Delivery &d) {
        if (!d.ran) return;
        uint8_t tos = d.buf[OFF_TOS], op = d.buf[OFF_OP];
        if (!disc_tos(tos)) return;
        ArbModel &a = m[d.node];
        Mac s = mac_at(d.buf + OFF_RSRC);
        if (op == W_DISCOVER) a.on_discover(s, sent_hello(d), d.internal_fault);
        else if (op == W_RESET) a.on_reset();
        else if (op == W_QLT && be16(d.buf + OFF_SEQ) == 0) { /* a request that must be ignored: no state change */ }
        else if (op == W_EMIT || op == W_QUERY || op == W_QLT) a.on_command(s);
    }
};

// ---------------------------------------------------------------- reference session table for the documented (Darwin) frame flow
// Fed from the received frames and the virtual clock only; never from the implementation's table.  Used by C11 (is the session
// known under another sequence number), C12 (is there an incomplete session), C14 (the tick emptied the table), C16 (passive equality).
struct FlowTable {
    struct E { uint16_t seq; int complete; /* 0 no, 1 yes, 2 unknown */ uint64_t last_s; };
    std::map<std::pair<Mac, uint16_t>, E> m;
    uint64_t traffic_s = 0;
    bool armed = false;
    void expire(uint64_t now_s) { for (auto it = m.begin(); it != m.end();) if (now_s > it->second.last_s + 60) it = m.erase(it); else ++it; }
    // the tick: 30 s inactivity drop first, then the 60 s per-session expiry
    void tick(uint64_t now_s) { if (armed && now_s >= traffic_s + 30) { m.clear(); armed = false; } expire(now_s); }
    // one received frame, in the order of the documented flow; ack: 0 no, 1 yes, 2 open
    void frame(const Delivery &d, const Mac &own, int mapping_before, int mapping_after) {
        uint8_t op = d.buf[OFF_OP];
        uint64_t now_s = d.t / 1000;
        if (op == W_DISCOVER) {
            auto key = std::make_pair(mac_at(d.buf + OFF_RSRC), be16(d.buf + 32));
            size_t count = be16(d.buf + 34), fits = d.len >= 36 ? (d.len - 36) / 6 : 0, scan = std::min(count, fits);
            int ack = count == 0 ? 2 : 0;
            for (size_t i = 0; i < scan; i++) if (mac_at(d.buf + 36 + 6 * i) == own) ack = 1;
            auto it = m.find(key);
            if (it != m.end()) { it->second.seq = be16(d.buf + OFF_SEQ); it->second.last_s = now_s; if (ack == 1) it->second.complete = 1; else if (ack == 2 && it->second.complete == 0) it->second.complete = 2; }
            else if (m.size() < 16) m[key] = E{be16(d.buf + OFF_SEQ), ack, now_s};
        } else if (op == W_RESET) m.clear();
        if (mapping_before != 0 && mapping_after == 0) m.clear(); // the flow clears the table when the mapping session ends
        traffic_s = now_s; armed = true;                           // every frame re-arms the inactivity deadline
        tick(std::max(d.t, d.t_end) / 1000);                       // the tick that follows every frame reads the clock after the pauses the core made while handling it
    }
    bool known_other_seq(const Mac &src, uint16_t gen, uint16_t xid) const { auto it = m.find({src, gen}); return it != m.end() && it->second.seq != xid; }
    int incomplete_certain() const { int n = 0; for (auto &kv : m) if (kv.second.complete == 0) n++; return n; }
    int incomplete_possible() const { int n = 0; for (auto &kv : m) if (kv.second.complete != 1) n++; return n; }
};

// ---------------------------------------------------------------- C01: memory safety -- the sanitizers are the oracle; ledger adds bad-free
struct MonC01 : Monitor {
    const char *prop() const override { return "C01"; }
    void on_delivery(World &w, Delivery &d) override {
        uint8_t op = d.buf[OFF_OP];
        if (d.len < 32) w.note("c01_short_frame");
        if (d.len == 0) w.note("c01_zero_len");
        if (op == W_EMIT && be16(d.buf + 32) * 14u + 34u > d.mtu) w.note("c01_emit_overdeclared");
        if (op == W_DISCOVER && be16(d.buf + 34) * 6u + 36u > d.mtu) w.note("c01_discover_overdeclared");
        if (op == W_QLT) w.note("c01_qlt");
        if (d.buf[OFF_TOS] > 2) w.note("c01_foreign_tos");
    }
};

// ---------------------------------------------------------------- C02: well-formed, solicited, bounded
static void check_wellformed(World &w, const TxRec &tx, uint32_t getfail, const char *prop) {
    const Node &n = *w.nodes[tx.node >= 0 ? tx.node : 0];
    const Bytes &f = tx.data;
    size_t bound = n.cfg.mtu;
    if ((getfail & G_MTU) && bound < 1500) bound = 1500; // responder falls back to 1500 when it cannot learn the MTU
    if (f.size() < 32) { w.violate(prop, "tx-too-short", fmt("transmitted frame of %zu bytes is shorter than the LLTD base header", f.size())); return; }
    if (f.size() > bound) { w.violate(prop, "tx-exceeds-mtu", fmt("transmitted frame of %zu bytes exceeds MTU %zu (opcode %u)", f.size(), bound, f[OFF_OP])); return; }
    if (f[OFF_ETYPE] != 0x88 || f[OFF_ETYPE + 1] != 0xD9) { w.violate(prop, "tx-ethertype", "EtherType is not 0x88D9"); return; }
    if (f[OFF_VER] != 1) { w.violate(prop, "tx-version", fmt("version byte %u", f[OFF_VER])); return; }
    if (f[OFF_RSVD] != 0) { w.violate(prop, "tx-reserved", fmt("reserved byte %u", f[OFF_RSVD])); return; }
    Mac rs = mac_at(&f[OFF_RSRC]);
    if (rs != n.attr.mac && !((getfail & G_MAC) && rs == MAC_ZERO)) { w.violate(prop, "tx-real-source", "real source " + rs.str() + " is not the interface address " + n.attr.mac.str()); return; }
    uint8_t op = f[OFF_OP];
    switch (op) {
    case W_PROBE: case W_TRAIN: case W_ACK:
        if (f.size() != 32) w.violate(prop, "tx-length", fmt("opcode %u frame has %zu bytes, must be 32", op, f.size()));
        break;
    case W_QUERYRESP: {
        if (f.size() < 34) { w.violate(prop, "tx-length", "QueryResp without count field"); break; }
        size_t cnt = be16(&f[32]) & 0x3FFF;
        if (f.size() != 34 + 20 * cnt) w.violate(prop, "tx-length", fmt("QueryResp declares %zu descriptors but has %zu bytes", cnt, f.size()));
        break;
    }
    case W_QLTRESP: {
        if (f.size() < 34) { w.violate(prop, "tx-length", "QueryLargeTlvResp without length field"); break; }
        size_t l = be16(&f[32]) & 0x7FFF;
        if (f.size() != 34 + l) w.violate(prop, "tx-length", fmt("QueryLargeTlvResp declares %zu payload bytes but has %zu bytes", l, f.size()));
        break;
    }
    case W_HELLO: {
        if (!disc_tos(f[OFF_TOS])) { w.violate(prop, "hello-tos", fmt("Hello with type of service %u", f[OFF_TOS])); break; }
        if (be16(&f[OFF_SEQ]) != 0) { w.violate(prop, "hello-seq", fmt("Hello with sequence number %u", be16(&f[OFF_SEQ]))); break; }
        HelloDec h = decode_hello(f);
        if (!h.ok) { w.violate(prop, "hello-structure", h.err); break; }
        if (h.tlvs.empty() || h.tlvs[0].type != 0x01) { w.violate(prop, "hello-hostid-first", "host identifier is not the first property"); break; }
        std::set<uint8_t> seen;
        for (auto &t : h.tlvs) {
            if (!seen.insert(t.type).second) { w.violate(prop, "hello-duplicate-tlv", fmt("property type 0x%02x appears twice", t.type)); break; }
            int ll = legal_len(t.type);
            if (ll >= 0 && (int)t.val.size() != ll) { w.violate(prop, "hello-tlv-length", fmt("property 0x%02x has length %zu, must be %d", t.type, t.val.size(), ll)); break; }
            if (ll < 0 && ll > -1000 && (int)t.val.size() > -ll - 1) { w.violate(prop, "hello-tlv-length", fmt("property 0x%02x has length %zu, at most %d allowed", t.type, t.val.size(), -ll - 1)); break; }
        }
        break;
    }
    default:
        w.violate(prop, "tx-opcode", fmt("responder transmitted opcode %u", op));
    }
}
struct MonC02 : Monitor {
    const char *prop() const override { return "C02"; }
    void on_delivery(World &w, Delivery &d) override {
        uint32_t gf = eff_getfail(w, d);
        int nh = 0, npt = 0, nack = 0, nqr = 0, nlr = 0;
        for (auto &tx : d.txs) {
            check_wellformed(w, tx, gf, "C02");
            if (tx.channel != 0 || tx.data.size() < 32) continue;
            switch (tx.data[OFF_OP]) { case W_HELLO: nh++; break; case W_PROBE: case W_TRAIN: npt++; break; case W_ACK: nack++; break; case W_QUERYRESP: nqr++; break; case W_QLTRESP: nlr++; break; default: break; }
        }
        int total = nh + npt + nack + nqr + nlr;
        uint8_t tos = d.buf[OFF_TOS], op = d.buf[OFF_OP];
        std::string why;
        if (!d.ran) { if (total) why = "frames sent although the port handed nothing to the core"; }
        else if (!disc_tos(tos)) { if (total) why = fmt("%d frame(s) sent in reaction to a frame of service %u", total, tos); }
        else if (op == W_DISCOVER) { if (nh > 1 || total != nh) why = fmt("Discover answered with %d Hello(s) and %d other frame(s)", nh, total - nh); if (nh) w.note("c02_solicited_hello"); }
        else if (op == W_EMIT) {
            size_t declared = be16(d.buf + 32), maxfit = d.mtu >= 34 ? (d.mtu - 34) / 14 : 0;
            if ((gf & G_MTU) && maxfit < (1500 - 34) / 14) maxfit = (1500 - 34) / 14;
            size_t allow = std::min(declared, maxfit);
            if ((size_t)npt > allow || nack > 1 || total != npt + nack) why = fmt("Emit declaring %zu descriptors (frame can carry %zu) produced %d Probe/Train, %d ACK, %d other", declared, maxfit, npt, nack, total - npt - nack);
            if (npt) w.note("c02_solicited_emit");
        }
        else if (op == W_QUERY) { if (nqr > 1 || total != nqr) why = fmt("Query answered with %d QueryResp and %d other frame(s)", nqr, total - nqr); if (nqr) w.note("c02_solicited_queryresp"); }
        else if (op == W_QLT) { if (nlr > 1 || total != nlr) why = fmt("QueryLargeTlv answered with %d responses and %d other frame(s)", nlr, total - nlr); if (nlr) w.note("c02_solicited_qltresp"); }
        else if (total) why = fmt("%d frame(s) sent in reaction to opcode %u of service %u", total, op, tos);
        if (!why.empty()) w.violate("C02", "unsolicited", why);
        if (total == 0 && d.ran) w.note("c02_silent_delivery");
    }
    void on_tick(World &w, TickRec &t) override {
        for (auto &tx : t.txs) {
            check_wellformed(w, tx, node_getfail(w, t.node), "C02");
            if (tx.channel == 0) w.violate("C02", "unsolicited", "the core transmitted a frame from the periodic tick without a request");
        }
    }
};

// ---------------------------------------------------------------- C03: exactly one correct Hello per accepted Discover
struct MonC03 : Monitor {
    ArbTracker arb;
    const char *prop() const override { return "C03"; }
    void on_delivery(World &w, Delivery &d) override {
        int cls = arb.classify(d);
        if (cls >= 0) {
            const Node &n = *w.nodes[d.node];
            uint32_t gf = eff_getfail(w, d);
            std::vector<const TxRec *> core;
            for (auto &tx : d.txs) if (tx.channel == 0) core.push_back(&tx);
            int hellos = 0;
            for (auto t : core) if (t->data.size() >= 32 && t->data[OFF_OP] == W_HELLO) hellos++;
            if (cls == 1 && !d.internal_fault) {
                if (core.size() != 1 || hellos != 1)
                    w.violate("C03", "not-exactly-one-hello", fmt("accepted Discover (tos %u) produced %zu frame(s), %d of them Hello", d.buf[OFF_TOS], core.size(), hellos));
                w.note("c03_accepted_discover");
            } else if (hellos > 1) w.violate("C03", "not-exactly-one-hello", fmt("Discover produced %d Hellos", hellos));
            for (auto t : core) {
                const Bytes &f = t->data;
                if (f.size() < 46 || f[OFF_OP] != W_HELLO) continue;
                Mac own = n.attr.mac;
                bool macfail = (gf & G_MAC) != 0;
                std::string bad;
                if (mac_at(&f[OFF_EDST]) != MAC_BCAST) bad = "Ethernet destination is not broadcast";
                else if (mac_at(&f[OFF_RDST]) != MAC_BCAST) bad = "real destination is not broadcast";
                else if (mac_at(&f[OFF_ESRC]) != own && !(macfail && mac_at(&f[OFF_ESRC]) == MAC_ZERO)) bad = "Ethernet source is not the interface address";
                else if (mac_at(&f[OFF_RSRC]) != own && !(macfail && mac_at(&f[OFF_RSRC]) == MAC_ZERO)) bad = "real source is not the interface address";
                else if (f[OFF_TOS] != d.buf[OFF_TOS]) bad = fmt("service type %u differs from the Discover's %u", f[OFF_TOS], d.buf[OFF_TOS]);
                else if (be16(&f[OFF_SEQ]) != 0) bad = "sequence number is not zero";
                else if (mac_at(&f[34]) != mac_at(d.buf + OFF_RSRC)) bad = "current mapper is not the Discover's real source";
                else if (mac_at(&f[40]) != mac_at(d.buf + OFF_ESRC)) bad = "apparent mapper is not the Discover's Ethernet source";
                else if (be16(&f[32]) != be16(d.buf + 32)) bad = fmt("generation 0x%04x is not the Discover's 0x%04x", be16(&f[32]), be16(d.buf + 32));
                if (!bad.empty()) w.violate("C03", "hello-field", bad);
                if (mac_at(d.buf + OFF_RSRC) != mac_at(d.buf + OFF_ESRC)) w.note("c03_bridged_hello");
                if (be16(d.buf + 32) == 0) w.note("c03_generation_zero");
            }
        }
        arb.update(d);
    }
};

// ---------------------------------------------------------------- C04: Hello properties encode the attributes
static void check_hello_attrs(World &w, const TxRec &tx, uint32_t gf) {
    const Node &n = *w.nodes[tx.node];
    const Attr &a = n.attr;
    const Bytes &f = tx.data;
    if (f.size() < 47 || f[OFF_OP] != W_HELLO) return;
    HelloDec h = decode_hello(f);
    if (!h.ok) { w.violate("C04", "hello-undecodable", h.err); return; }
    w.note(tx.channel == 0 ? "c04_solicited_hello_checked" : "c04_periodic_hello_checked");
    auto need = [&](uint8_t t, size_t len) -> const Tlv * {
        const Tlv *x = h.find(t);
        if (!x) { w.violate("C04", "tlv-missing", fmt("property 0x%02x missing from Hello", t)); return nullptr; }
        if (x->val.size() != len) { w.violate("C04", "tlv-length", fmt("property 0x%02x has length %zu, expected %zu", t, x->val.size(), len)); return nullptr; }
        return x;
    };
    auto is_zero = [](const Bytes &b) { for (auto c : b) if (c) return false; return true; };
    // host id
    if (const Tlv *x = need(0x01, 6)) {
        if (memcmp(x->val.data(), a.mac.a, 6) != 0 && !((gf & G_MAC) && is_zero(x->val))) w.violate("C04", "hostid", "host id " + hex(x->val.data(), 6) + " != interface address " + a.mac.str());
    }
    if (const Tlv *x = need(0x02, 4)) {
        uint32_t v = be32(x->val.data());
        if (v != ((uint32_t)a.flags << 16)) w.violate("C04", "characteristics", fmt("characteristics 0x%08x, expected flags 0x%04x in the upper half", v, a.flags));
    }
    if (const Tlv *x = need(0x03, 4)) {
        uint32_t v = be32(x->val.data());
        if (v != a.iftype && !((gf & G_IFTYPE) && v == 0)) w.violate("C04", "iftype", fmt("interface type %u, expected %u", v, a.iftype));
    }
    if (const Tlv *x = need(0x07, 4)) {
        uint32_t v = be32(x->val.data());
        if (v != a.ipv4 && !((gf & G_IPV4) && v == 0)) w.violate("C04", "ipv4", fmt("IPv4 bytes 0x%08x, expected 0x%08x", v, a.ipv4));
    }
    if (const Tlv *x = need(0x08, 16)) {
        if (memcmp(x->val.data(), a.ipv6, 16) != 0 && !((gf & G_IPV6) && is_zero(x->val))) w.violate("C04", "ipv6", "IPv6 " + hex(x->val.data(), 16) + " != " + hex(a.ipv6, 16));
    }
    if (const Tlv *x = need(0x0A, 8)) {
        static const uint8_t mhz[8] = {0, 0, 0, 0, 0, 0x0F, 0x42, 0x40};
        if (memcmp(x->val.data(), mhz, 8) != 0) w.violate("C04", "perf-counter", "performance counter frequency " + hex(x->val.data(), 8) + " != 1000000");
    }
    if (const Tlv *x = need(0x0C, 4)) {
        uint32_t v = be32(x->val.data());
        if (v != a.speed && !((gf & G_SPEED) && v == 0)) w.violate("C04", "link-speed", fmt("link speed %u, expected %u", v, a.speed));
    }
    if (const Tlv *x = h.find(0x0F)) {
        size_t exp = std::min((size_t)32, a.hostname.size());
        if (gf & G_HOSTNAME) { if (!x->val.empty()) w.violate("C04", "hostname", "hostname present although the getter failed"); }
        else if (x->val.size() != exp || (exp && memcmp(x->val.data(), a.hostname.data(), exp) != 0))
            w.violate("C04", "hostname", fmt("machine name has %zu bytes '%s', expected the first %zu bytes of the %zu-byte name", x->val.size(), hex(x->val.data(), x->val.size()).c_str(), exp, a.hostname.size()));
        if (a.hostname.size() > 32) w.note("c04_hostname_clamped");
    } else w.violate("C04", "tlv-missing", "machine name property missing");
    if (const Tlv *x = need(0x14, 4)) {
        if (be32(x->val.data()) != 0xE0000000u) w.violate("C04", "qos", fmt("QoS characteristics 0x%08x, expected 0xE0000000", be32(x->val.data())));
    }
    static const uint8_t WT[] = {0x04, 0x05, 0x06, 0x09, 0x0D};
    if (!a.wifi) {
        for (uint8_t t : WT) if (h.find(t)) { w.violate("C04", "wifi-gating", fmt("wireless property 0x%02x on a wired interface", t)); break; }
    } else {
        // a wireless interface whose mode cannot be read: the wireless properties may be left out, but whatever is sent must be right
        bool must = !(gf & G_WIFIMODE);
        w.note(must ? "c04_wifi_hello" : "c04_wifi_mode_unreadable");
        auto opt = [&](uint8_t t, size_t len) -> const Tlv * {
            const Tlv *x = h.find(t);
            if (!x) { if (must) w.violate("C04", "tlv-missing", fmt("wireless property 0x%02x missing from the Hello of a Wi-Fi interface", t)); return nullptr; }
            if (x->val.size() != len) { w.violate("C04", "tlv-length", fmt("property 0x%02x has length %zu, expected %zu", t, x->val.size(), len)); return nullptr; }
            return x;
        };
        if (const Tlv *x = h.find(0x04)) {
            if (gf & G_WIFIMODE) w.violate("C04", "wifi-mode", "Wi-Fi mode property present although the mode cannot be read");
            else if (x->val.size() != 1 || x->val[0] != a.wifimode) w.violate("C04", "wifi-mode", fmt("Wi-Fi mode %u, expected %u", x->val.empty() ? 0 : x->val[0], a.wifimode));
        } else if (must) w.violate("C04", "tlv-missing", "Wi-Fi mode property missing from the Hello of a Wi-Fi interface");
        const Tlv *b = h.find(0x05);
        if (gf & G_BSSID) { if (b && !is_zero(b->val)) w.violate("C04", "bssid", "BSSID present although the getter failed"); }
        else if (b ? (b->val.size() != 6 || memcmp(b->val.data(), a.bssid, 6) != 0) : must) w.violate("C04", "bssid", "BSSID missing or wrong");
        const Tlv *s = h.find(0x06);
        size_t exp = std::min((size_t)32, a.ssid.size());
        if (gf & G_SSID) { if (s && !s->val.empty()) w.violate("C04", "ssid", "SSID present although the getter failed"); }
        else if (s ? (s->val.size() != exp || (exp && memcmp(s->val.data(), a.ssid.data(), exp) != 0)) : must) w.violate("C04", "ssid", fmt("SSID missing or wrong (got %zu bytes, expected %zu)", s ? s->val.size() : 0, exp));
        if (a.ssid.size() > 32) w.note("c04_ssid_clamped");
        if (const Tlv *x = opt(0x09, 2)) {
            uint16_t v = be16(x->val.data());
            if (v != a.rate && !((gf & G_RATE) && v == 0)) w.violate("C04", "wifi-rate", fmt("max rate %u, expected %u", v, a.rate));
        }
        if (const Tlv *x = opt(0x0D, 4)) {
            int32_t v = (int32_t)be32(x->val.data());
            if (v != (int32_t)a.rssi && !((gf & G_RSSI) && v == 0)) w.violate("C04", "wifi-rssi", fmt("RSSI %d, expected %d", v, a.rssi));
            if (a.rssi < 0) w.note("c04_negative_rssi");
        }
    }
}
struct MonC04 : Monitor {
    const char *prop() const override { return "C04"; }
    void on_delivery(World &w, Delivery &d) override {
        uint32_t gf = eff_getfail(w, d);
        if (gf) w.note("c04_getter_failure_active");
        for (auto &tx : d.txs) if (!d.alloc_fault_fired) check_hello_attrs(w, tx, gf);
    }
    void on_tick(World &w, TickRec &t) override { for (auto &tx : t.txs) check_hello_attrs(w, tx, node_getfail(w, t.node)); }
};

// ---------------------------------------------------------------- C05: one mapper at a time
struct MonC05 : Monitor {
    ArbTracker arb;
    const char *prop() const override { return "C05"; }
    void on_op(World &, int, const Op &op) override { if (op.kind == OP_ATTR && (op.a[2] & 0x80000)) arb.m.erase((int)op.a[0]); } // re-created under a fresh context: no mapper, as after start-up
    void on_delivery(World &w, Delivery &d) override {
        if (d.ran) {
            uint8_t tos = d.buf[OFF_TOS], op = d.buf[OFF_OP];
            ArbModel &a = arb.m[d.node];
            w.cell(5, ((uint64_t)(a.none_possible ? 0 : 1) << 16) | ((uint64_t)tos << 8) | op); // (state, ToS, opcode) triples
            int cls = arb.classify(d);
            bool replied = ArbTracker::sent_hello(d);
            if (cls == 1 && !replied && !d.internal_fault)
                w.violate("C05", a.none_possible && a.active.empty() ? "free-responder-silent" : "active-mapper-ignored",
                          fmt("Discover (tos %u) from %s got no Hello although %s", tos, mac_at(d.buf + OFF_RSRC).str().c_str(),
                              a.active.empty() ? "no mapper is active" : "it is the active mapper"));
            if (cls == 0 && replied)
                w.violate("C05", "second-mapper-answered", "Discover from " + mac_at(d.buf + OFF_RSRC).str() + " was answered while " + (a.active.empty() ? std::string("?") : a.active.begin()->str()) + " is the active mapper");
            if (cls == 1) w.note(replied ? "c05_accept_replied" : "c05_accept_silent");
            if (cls == 0) w.note("c05_reject_expected");
            if (op == W_DISCOVER && !disc_tos(tos)) {
                w.note("c05_foreign_discover");
                if (replied) w.violate("C05", "foreign-service-answered", fmt("opcode-0 frame of service %u was answered with a Hello", tos));
            }
        }
        arb.update(d);
    }
};

// ---------------------------------------------------------------- C06: Emit execution
struct MonC06 : Monitor {
    ArbTracker arb;
    std::map<int, std::map<Mac, std::set<Mac>>> via; // node -> mapper real address -> Ethernet sources it was seen behind since the last Reset
    const char *prop() const override { return "C06"; }
    void on_delivery(World &w, Delivery &d) override {
        if (d.ran && disc_tos(d.buf[OFF_TOS])) {
            if (d.buf[OFF_OP] == W_RESET) via[d.node].clear();
            else via[d.node][mac_at(d.buf + OFF_RSRC)].insert(mac_at(d.buf + OFF_ESRC));
        }
        if (d.ran && d.buf[OFF_TOS] == 0 && d.buf[OFF_OP] == W_EMIT) {
            const Node &n = *w.nodes[d.node];
            uint32_t gf = eff_getfail(w, d);
            size_t declared = be16(d.buf + 32);
            size_t maxfit = (d.mtu - 34) / 14;
            if ((gf & G_MTU) && maxfit < (1500 - 34) / 14) maxfit = (1500 - 34) / 14;
            std::vector<const TxRec *> core;
            for (auto &tx : d.txs) if (tx.channel == 0) core.push_back(&tx);
            size_t npt = 0;
            for (auto t : core) if (t->data.size() >= 32 && (t->data[OFF_OP] == W_PROBE || t->data[OFF_OP] == W_TRAIN)) npt++;
            if (npt > maxfit) w.violate("C06", "emit-count-unbounded", fmt("Emit declaring %zu descriptors made the responder send %zu Probe/Train frames; a maximum-size Emit carries %zu", declared, npt, maxfit));
            if (34 + 14 * declared > d.len) w.note("c06_overdeclared_emit");
            Mac src = mac_at(d.buf + OFF_RSRC);
            bool fits = declared >= 1 && 34 + 14 * declared <= d.len;
            bool kinds_ok = true;
            for (size_t i = 0; fits && i < declared; i++) if (d.buf[34 + 14 * i] > 1) kinds_ok = false;
            uint16_t seq = be16(d.buf + OFF_SEQ);
            if (fits && kinds_ok && seq != 0 && arb.m[d.node].certainly_active(src)) {
                w.note("c06_wellformed_emit");
                if (declared == maxfit) w.note("c06_max_emit");
                size_t expect = declared + 1;
                // a platform that cannot tell the MTU is a platform fault: the Emit may be executed partially (C18), what is sent stays checked
                bool faulted = d.internal_fault || (gf & G_MTU);
                if (faulted) w.note("c06_emit_under_platform_fault");
                if (!faulted && core.size() != expect)
                    w.violate("C06", "emit-frame-count", fmt("Emit with %zu descriptors produced %zu frame(s), expected %zu Probe/Train + 1 ACK", declared, core.size(), declared));
                if (faulted && core.size() > expect) w.violate("C06", "emit-frame-count", "more frames than descriptors + ACK");
                uint64_t pause_sum = 0;
                bool macfail = (gf & G_MAC) != 0;
                // under an injected platform fault single frames may be missing anywhere; what is sent is then judged by C18 against the fault-free run
                for (size_t i = 0; !faulted && i < core.size() && i < expect; i++) {
                    const Bytes &f = core[i]->data;
                    if (f.size() < 32) continue;
                    if (core[i]->refused) w.note("c06_refused_send");
                    if (i < declared) {
                        const uint8_t *ds = d.buf + 34 + 14 * i;
                        pause_sum += ds[1];
                        uint8_t want = ds[0] == 1 ? W_PROBE : W_TRAIN;
                        std::string bad;
                        if (f[OFF_OP] != want) bad = fmt("descriptor %zu of kind %u produced opcode %u", i, ds[0], f[OFF_OP]);
                        else if (mac_at(&f[OFF_ESRC]) != mac_at(ds + 2)) bad = fmt("descriptor %zu: Ethernet source differs from the descriptor's source", i);
                        else if (mac_at(&f[OFF_EDST]) != mac_at(ds + 8)) bad = fmt("descriptor %zu: Ethernet destination differs from the descriptor's destination", i);
                        else if (mac_at(&f[OFF_RSRC]) != n.attr.mac && !(macfail && mac_at(&f[OFF_RSRC]) == MAC_ZERO)) bad = fmt("descriptor %zu: real source is not the responder's address", i);
                        else if (core[i]->t < d.t + pause_sum) bad = fmt("descriptor %zu sent at +%llu ms, before its cumulative pause of %llu ms", i, (unsigned long long)(core[i]->t - d.t), (unsigned long long)pause_sum);
                        if (!bad.empty()) { w.violate("C06", "emit-frame-field", bad); break; }
                        if (ds[1] == 255) w.note("c06_pause_255");
                    } else {
                        std::string bad;
                        Mac ed = mac_at(&f[OFF_EDST]);
                        Mac mes = mac_at(d.buf + OFF_ESRC);
                        if (f[OFF_OP] != W_ACK) bad = fmt("frame after the last descriptor has opcode %u, expected ACK", f[OFF_OP]);
                        else if (mac_at(&f[OFF_RDST]) != src) bad = "ACK real destination is not the mapper";
                        else if (ed != mes && ed != src && !via[d.node][src].count(ed) && !(mes != src && ed == MAC_BCAST)) bad = "ACK Ethernet destination is neither the mapper nor an address it was seen behind";
                        else if (mac_at(&f[OFF_ESRC]) != n.attr.mac && !macfail) bad = "ACK Ethernet source is not the responder";
                        else if (mac_at(&f[OFF_RSRC]) != n.attr.mac && !macfail) bad = "ACK real source is not the responder";
                        else if (be16(&f[OFF_SEQ]) != seq) bad = fmt("ACK sequence number %u, Emit had %u", be16(&f[OFF_SEQ]), seq);
                        if (!bad.empty()) w.violate("C06", "emit-ack", bad);
                    }
                }
            }
        }
        arb.update(d);
    }
};

// ---------------------------------------------------------------- C07: observations reported exactly once
struct Obs {
    Mac rs, es, ed;
    bool operator<(const Obs &o) const { return std::tie(rs, es, ed) < std::tie(o.rs, o.es, o.ed); }
    bool operator==(const Obs &o) const { return rs == o.rs && es == o.es && ed == o.ed; }
};
struct SeeModel {
    std::set<Obs> must, maybe;
    std::set<std::pair<Mac, Mac>> keys; // (eth src, real src) pairs already pending
    std::set<std::pair<Mac, Mac>> maybe_keys; // pairs of observations the responder MAY have recorded (destination only half ours): a later frame with such a pair may be dropped as a duplicate
    bool relaxed = false;               // more than 300 pending in this period: conservation not demanded (C19 may cap)
    // Even while relaxed: every descriptor a QueryResp delivered made room for one more observation, whatever the bound is.  An
    // observation received while such room exists must be recorded, i.e. reported before the drain ends.
    uint64_t room = 0;
    std::set<Obs> strict;
    void clear() { must.clear(); maybe.clear(); keys.clear(); maybe_keys.clear(); relaxed = false; room = 0; strict.clear(); }
};
struct MonC07 : Monitor {
    std::map<int, SeeModel> sm;
    const char *prop() const override { return "C07"; }
    void on_delivery(World &w, Delivery &d) override {
        if (!d.ran || d.buf[OFF_TOS] > 1) return;
        const Node &n = *w.nodes[d.node];
        SeeModel &s = sm[d.node];
        uint8_t tos = d.buf[OFF_TOS], op = d.buf[OFF_OP];
        uint32_t gf = eff_getfail(w, d);
        if (tos == 0 && (op == W_PROBE || op == W_TRAIN)) {
            Obs o{mac_at(d.buf + OFF_RSRC), mac_at(d.buf + OFF_ESRC), mac_at(d.buf + OFF_EDST)};
            bool e_own = o.ed == n.attr.mac, r_own = mac_at(d.buf + OFF_RDST) == n.attr.mac;
            std::pair<Mac, Mac> key(o.es, o.rs);
            if (e_own && r_own && !d.internal_fault && !(gf & G_MAC)) {
                if (s.keys.count(key)) { if (!s.must.count(o) && !s.maybe.count(o)) s.maybe.insert(o); w.note("c07_duplicate_observation"); }
                else if (s.maybe_keys.count(key)) { s.maybe.insert(o); w.note("c07_possible_duplicate_of_half_addressed_frame"); }
                else { s.must.insert(o); s.keys.insert(key); if (s.relaxed && s.room > 0) { s.room--; s.strict.insert(o); w.note("c07_observation_into_freed_room"); } }
                if (s.must.size() > 300) s.relaxed = true;
            } else if (!e_own && !r_own && !(gf & G_MAC)) { w.note("c07_foreign_probe"); }
            else { s.maybe.insert(o); s.maybe_keys.insert(key); }
        } else if (tos == 0 && op == W_RESET) { s.clear(); w.note("c07_reset"); }
        else if (tos == 1 && op == W_RESET) { for (auto &o : s.must) s.maybe.insert(o); s.must.clear(); s.strict.clear(); s.room = 0; }
        else if (tos == 0 && op == W_QUERY) {
            std::vector<const TxRec *> qr;
            for (auto &tx : d.txs) if (tx.channel == 0 && tx.data.size() >= 34 && tx.data[OFF_OP] == W_QUERYRESP) qr.push_back(&tx);
            if (!qr.empty() && qr[0]->data.size() >= 34) { // whatever else went wrong: a QueryResp that says "N descriptors, nothing more to come" must carry N
                const Bytes &g = qr[0]->data; uint16_t c0 = be16(&g[32]); size_t dn = c0 & 0x3FFF, carried = (g.size() - 34) / 20;
                if (!(c0 & 0x8000) && dn > carried) { w.violate("C07", "observations-dropped", fmt("QueryResp declares %zu descriptors without the more flag but carries %zu: %zu observation(s) are announced as delivered and are not", dn, carried, dn - carried)); return; }
            }
            if (d.internal_fault) { for (auto &o : s.must) s.maybe.insert(o); s.must.clear(); for (auto &k : s.keys) s.maybe_keys.insert(k); s.keys.clear(); s.strict.clear(); s.room = 0; if (qr.empty()) return; }
            if (qr.empty()) { w.violate("C07", "query-unanswered", "Query got no QueryResp"); return; }
            const Bytes &f = qr[0]->data;
            Mac qs = mac_at(d.buf + OFF_RSRC), qe = mac_at(d.buf + OFF_ESRC);
            if (be16(&f[OFF_SEQ]) != be16(d.buf + OFF_SEQ)) w.violate("C07", "queryresp-seq", fmt("QueryResp sequence %u, Query had %u", be16(&f[OFF_SEQ]), be16(d.buf + OFF_SEQ)));
            Mac want = qs == qe ? qs : MAC_BCAST;
            if (mac_at(&f[OFF_EDST]) != want) w.violate("C07", "queryresp-destination", "QueryResp sent to " + mac_at(&f[OFF_EDST]).str() + ", expected " + want.str() + (qs == qe ? " (the mapper)" : " (broadcast: mapper is bridged)"));
            if (qs != qe) w.note("c07_bridged_query");
            uint16_t cf = be16(&f[32]);
            size_t cnt = cf & 0x3FFF;
            bool more = (cf & 0x8000) != 0;
            if (f.size() < 34 + 20 * cnt) { // malformed (C02's business); for C07 only what is really carried counts as delivered
                size_t carried = (f.size() - 34) / 20;
                w.note("c07_queryresp_declares_more_than_carried");
                cnt = carried;
            }
            std::set<Obs> listed;
            size_t pend_before = s.must.size();
            for (size_t i = 0; i < cnt; i++) {
                const uint8_t *p = &f[34 + 20 * i];
                Obs o{mac_at(p + 2), mac_at(p + 8), mac_at(p + 14)};
                if (!listed.insert(o).second) { w.violate("C07", "observation-twice", "QueryResp lists " + o.rs.str() + "/" + o.es.str() + " twice"); return; }
                s.strict.erase(o);
                if (s.must.count(o)) s.must.erase(o);
                else if (s.maybe.count(o)) s.maybe.erase(o);
                else { w.violate("C07", "observation-invented", "QueryResp lists an observation (real source " + o.rs.str() + ", Ethernet source " + o.es.str() + ") that was never received or was already reported/reset"); return; }
            }
            if (pend_before) w.note("c07_query_with_pending");
            if (pend_before > (d.mtu - 34) / 20) w.note("c07_query_over_capacity");
            if (!s.must.empty() && !more && !s.relaxed) {
                w.violate("C07", "observations-dropped", fmt("%zu observation(s) were pending, QueryResp delivered %zu without the more flag; %zu are lost", pend_before, cnt, s.must.size()));
                return;
            }
            if (more) w.note("c07_more_flag_seen");
            if (more && cnt == 0 && !s.must.empty() && d.mtu >= 54 && !(gf & G_MTU)) {
                w.violate("C07", "observations-dropped", fmt("QueryResp announces more descriptors but carries none while %zu observation(s) are pending: a drain can never complete", s.must.size()));
                return;
            }
            if (s.relaxed) s.room += cnt;
            if (!more && !s.strict.empty()) {
                w.violate("C07", "observations-dropped", fmt("%zu observation(s) received while the record had room again (a QueryResp had just delivered descriptors) were never reported before the drain ended", s.strict.size()));
                return;
            }
            if (!more) { // whatever an implementation did not deliver and did not announce is gone
                s.maybe.clear(); s.keys.clear(); s.maybe_keys.clear(); s.relaxed = false; s.must.clear(); s.room = 0; s.strict.clear();
            } else {
                s.keys.clear();
                for (auto &o : s.must) s.keys.insert({o.es, o.rs});
            }
        }
    }
};

// ---------------------------------------------------------------- C08: large properties by offset
struct MonC08 : Monitor {
    struct IconCache { bool have = false; Bytes data; std::vector<Bytes> maybe; /* images the responder MAY hold: requested while a platform fault was injected (the fetch may have succeeded although the answer was lost) */ };
    std::map<int, IconCache> cache;
    std::map<std::pair<int, int>, Bytes> asm_;
    const char *prop() const override { return "C08"; }
    void clear_asm(int node, bool icon_too) {
        for (auto it = asm_.begin(); it != asm_.end();) if (it->first.first == node && (icon_too || it->first.second != 0x0E)) it = asm_.erase(it); else ++it;
    }
    // a platform change in the middle of a fetch legitimately mixes old and new bytes (except for the cached icon)
    void on_op(World &, int, const Op &op) override { if (op.kind == OP_ATTR) clear_asm((int)op.a[0], true); } // also for the icon: an implementation need not cache it
    static Bytes hwid_bytes(const Attr &a) {
        Bytes b(64, 0);
        size_t n = std::min((size_t)64, a.hwid.size());
        if (n) memcpy(b.data(), a.hwid.data(), n);
        size_t sz = 64;
        for (size_t i = 0; i + 1 < 64; i += 2) if (b[i] == 0 && b[i + 1] == 0) { sz = i; break; }
        b.resize(sz);
        return b;
    }
    void on_delivery(World &w, Delivery &d) override {
        if (!d.ran) return;
        uint8_t tos = d.buf[OFF_TOS], op = d.buf[OFF_OP];
        if (tos == 0 && op == W_RESET) { cache[d.node].have = false; cache[d.node].maybe.clear(); clear_asm(d.node, true); return; }
        if (!disc_tos(tos) || op != W_QLT) return;
        const Node &n = *w.nodes[d.node];
        uint32_t gf = eff_getfail(w, d);
        std::vector<const TxRec *> rs;
        for (auto &tx : d.txs) if (tx.channel == 0) rs.push_back(&tx);
        uint16_t seq = be16(d.buf + OFF_SEQ);
        if (seq == 0) { if (!rs.empty()) w.violate("C08", "seq-zero-answered", "QueryLargeTlv with sequence number 0 was answered"); w.note("c08_seq_zero"); return; }
        if (d.internal_fault && d.buf[32] == 0x0E && n.attr.icon_avail && !cache[d.node].have && cache[d.node].maybe.size() < 4) cache[d.node].maybe.push_back(n.attr.icon);
        if (d.internal_fault && rs.empty()) return;
        if (rs.size() != 1 || rs[0]->data.size() < 34 || rs[0]->data[OFF_OP] != W_QLTRESP) { w.violate("C08", "no-single-response", fmt("QueryLargeTlv produced %zu frame(s)", rs.size())); return; }
        const Bytes &f = rs[0]->data;
        if (be16(&f[OFF_SEQ]) != seq) { w.violate("C08", "response-seq", fmt("response sequence %u, request had %u", be16(&f[OFF_SEQ]), seq)); return; }
        uint8_t type = d.buf[32];
        uint32_t off = be16(d.buf + 34);
        uint16_t lf = be16(&f[32]);
        size_t nbytes = lf & 0x7FFF;
        bool more = (lf & 0x8000) != 0;
        if (f.size() != 34 + nbytes) return; // C02
        size_t mtu = d.mtu;
        if ((gf & G_MTU)) mtu = std::max(mtu, (size_t)1500);
        if (f.size() > mtu) { w.violate("C08", "response-exceeds-mtu", fmt("response of %zu bytes exceeds MTU %zu", f.size(), mtu)); return; }
        // candidate data sets
        std::vector<Bytes> cands;
        IconCache &c = cache[d.node];
        if (type == 0x0E) {
            bool avail = n.attr.icon_avail && !(gf & G_ICON);
            if (c.have) cands.push_back(c.data);
            for (auto &m : c.maybe) cands.push_back(m);
            if (avail) { cands.push_back(n.attr.icon); if (!c.have && !d.internal_fault) { c.have = true; c.data = n.attr.icon; } }
            else cands.push_back(Bytes()); // the platform has no icon (any more): an implementation that does not cache reports it as unavailable
            if (d.internal_fault) cands.push_back(Bytes());
            w.note("c08_icon_request");
        } else if (type == 0x11) {
            if (n.attr.fname_avail && !(gf & G_FNAME) && !d.alloc_fault_fired) cands.push_back(n.attr.fname); else { cands.push_back(Bytes()); if (n.attr.fname_avail && !(gf & G_FNAME)) cands.push_back(n.attr.fname); }
            w.note("c08_fname_request");
        } else if (type == 0x13) {
            if (!(gf & G_HWID) && !d.alloc_fault_fired) cands.push_back(hwid_bytes(n.attr)); else { cands.push_back(Bytes()); if (!(gf & G_HWID)) cands.push_back(hwid_bytes(n.attr)); }
            w.note("c08_hwid_request");
        } else { cands.push_back(Bytes()); w.note("c08_unknown_type"); }
        std::string err;
        bool okany = false;
        const Bytes *used = nullptr;
        for (auto &data : cands) {
            std::string e;
            size_t size = data.size();
            if (off >= size) { if (nbytes != 0 || more) e = fmt("offset %u at/after the end of a %zu-byte property (or unknown/unavailable) must give an empty payload without 'more'; got %zu bytes more=%d", off, size, nbytes, more); }
            else {
                if (nbytes == 0) e = fmt("offset %u inside a %zu-byte property returned no bytes", off, size);
                else if (off + nbytes > size) e = fmt("payload of %zu bytes at offset %u runs past the %zu-byte property", nbytes, off, size);
                else if (memcmp(f.data() + 34, data.data() + off, nbytes) != 0) e = fmt("payload bytes differ from the property at offset %u (size %zu)", off, size);
                else if (more != (off + nbytes < size)) e = fmt("'more' is %d but offset %u + %zu bytes vs size %zu", more, off, nbytes, size);
            }
            if (e.empty()) { okany = true; used = &data; break; }
            if (err.empty()) err = e;
        }
        if (!okany) { w.violate("C08", "chunk-relation", fmt("type 0x%02x: ", type) + err); return; }
        if (more) w.note("c08_more_chunk");
        if (off > 0 && nbytes > 0) w.note("c08_nonzero_offset_chunk");
        // end-to-end reassembly
        auto key = std::make_pair(d.node, (int)type);
        Bytes &acc = asm_[key];
        if (off == 0) acc.clear();
        if (off == acc.size()) {
            acc.insert(acc.end(), f.begin() + 34, f.end());
            if (!more && used && !used->empty()) {
                if (acc != *used) w.violate("C08", "reassembly", fmt("type 0x%02x reassembled %zu bytes differ from the %zu platform bytes", type, acc.size(), used->size()));
                else { w.note("c08_reassembled"); if (used->size() > mtu - 34) w.note("c08_reassembled_multichunk"); }
                acc.clear();
            }
        }
    }
};

// ---------------------------------------------------------------- C10: emitter and observer agree
struct MonC10 : Monitor {
    std::map<int, std::set<Obs>> expect;
    std::map<int, bool> relaxed;
    ArbTracker arb;
    const char *prop() const override { return "C10"; }
    void on_delivery(World &w, Delivery &d) override {
        struct Upd { ArbTracker &a; Delivery &d; ~Upd() { a.update(d); } } upd{arb, d};
        if (!d.ran || d.buf[OFF_TOS] != 0) return;
        const Node &n = *w.nodes[d.node];
        uint8_t op = d.buf[OFF_OP];
        if ((op == W_PROBE || op == W_TRAIN) && d.from_responder && d.src_node >= 0) {
            const Node &a = *w.nodes[d.src_node];
            // the frame A put on the wire for a descriptor (src = A, dst = B), delivered unmodified to B
            if (mac_at(d.buf + OFF_EDST) == n.attr.mac && !d.internal_fault && !(node_getfail(w, d.node) & G_MAC) && !(node_getfail(w, d.src_node) & G_MAC)) {
                expect[d.node].insert(Obs{a.attr.mac, mac_at(d.buf + OFF_ESRC), n.attr.mac}); // real source A, Ethernet source as the descriptor said
                w.note("c10_probe_delivered_to_peer");
                if (expect[d.node].size() > 300) relaxed[d.node] = true;
            }
        } else if (op == W_RESET) { expect[d.node].clear(); relaxed[d.node] = false; }
        else if (op == W_EMIT && !d.internal_fault && !d.from_responder) {
            // the emitting half: an Emit that is being executed (at least one frame went out) must put every ordered frame on the wire -
            // a frame that is never emitted can never be observed by the peer
            size_t declared = be16(d.buf + 32), fits = d.len >= 34 ? (d.len - 34) / 14 : 0;
            size_t sent = 0;
            for (auto &tx : d.txs) if (tx.channel == 0 && !tx.refused && tx.data.size() >= 32 && (tx.data[OFF_OP] == W_PROBE || tx.data[OFF_OP] == W_TRAIN)) sent++;
            // descriptors of a kind that is neither Probe nor Train order nothing; the Probe/Train orders next to them in the same list are orders all the same
            size_t orders = 0;
            for (size_t i = 0; i < declared && i < fits; i++) if (d.buf[34 + 14 * i] <= 1) orders++;
            bool by_mapper = arb.m.count(d.node) && arb.m[d.node].certainly_active(mac_at(d.buf + OFF_RSRC));
            if ((sent > 0 || by_mapper) && declared >= 1 && declared <= fits && sent < orders && !(node_getfail(w, d.node) & (G_MTU | G_MAC)))
                w.violate("C10", "peer-probe-not-reported", fmt("an Emit with %zu descriptors (%zu of them Probe/Train orders) was executed but only %zu frame(s) were put on the wire: the rest can never be observed by the peer", declared, orders, sent));
        }
        else if (op == W_QUERY) {
            if (d.internal_fault) { expect[d.node].clear(); return; }
            for (auto &tx : d.txs) {
                if (tx.channel != 0 || tx.data.size() < 34 || tx.data[OFF_OP] != W_QUERYRESP) continue;
                const Bytes &f = tx.data;
                uint16_t cf = be16(&f[32]);
                size_t cnt = cf & 0x3FFF;
                if (f.size() < 34 + 20 * cnt) cnt = (f.size() - 34) / 20; // only what the frame really carries has been reported
                for (size_t i = 0; i < cnt; i++) {
                    const uint8_t *p = &f[34 + 20 * i];
                    Obs o{mac_at(p + 2), mac_at(p + 8), mac_at(p + 14)};
                    if (expect[d.node].erase(o)) w.note("c10_probe_reported_by_peer");
                }
                if ((cf & 0x8000) && cnt == 0 && !expect[d.node].empty() && d.mtu >= 54) {
                    w.violate("C10", "peer-probe-not-reported", "QueryResp announces more descriptors but carries none: the frames the peer emitted are withheld for ever");
                    expect[d.node].clear();
                }
                if (!(cf & 0x8000)) {
                    if (!expect[d.node].empty() && !relaxed[d.node]) {
                        const Obs &o = *expect[d.node].begin();
                        w.violate("C10", "peer-probe-not-reported", "frame emitted by responder " + o.rs.str() + " towards " + o.ed.str() + " was delivered unmodified but is missing from the peer's QueryResp");
                    }
                    expect[d.node].clear();
                }
            }
        }
    }
};

// ---------------------------------------------------------------- C11: session-event classifier
struct MonC11 : Monitor {
    std::map<int, FlowTable> ft;
    const char *prop() const override { return "C11"; }
    void on_tick(World &, TickRec &t) override { ft[t.node].tick(t.t / 1000); }
    void on_delivery(World &w, Delivery &d) override {
        if (!d.ran || d.after.last_sess_event == -99) return;
        const Node &n = *w.nodes[d.node];
        if (n.cfg.glue != GLUE_DARWIN) return;
        struct Feed { FlowTable &f; const Delivery &d; const Mac &own; ~Feed() { f.frame(d, own, d.before.mapping_state, d.after.mapping_state); } } feed{ft[d.node], d, n.attr.mac};
        int got = d.after.last_sess_event;
        uint8_t op = d.buf[OFF_OP];
        w.note("c11_classified");
        if (op == W_RESET) {
            int want = mac_at(d.buf + OFF_RDST) == MAC_BCAST ? 6 : 1;
            if (got != want) w.violate("C11", "reset-class", fmt("Reset with %s real destination classified as %d, expected %d", want == 6 ? "broadcast" : "unicast", got, want));
            w.note(want == 6 ? "c11_topo_reset" : "c11_unicast_reset");
        } else if (op == W_HELLO) {
            if (got != 7) w.violate("C11", "hello-class", fmt("Hello classified as %d, expected 7", got));
        } else if (op == W_DISCOVER) {
            size_t count = be16(d.buf + 34);
            size_t fits = d.len >= 36 ? (d.len - 36) / 6 : 0;
            uint16_t gen = be16(d.buf + 32), xid = be16(d.buf + OFF_SEQ);
            Mac src = mac_at(d.buf + OFF_RSRC);
            bool changed = ft[d.node].known_other_seq(src, gen, xid); // from the model of the flow's table, not from the implementation's
            size_t scan = std::min(count, fits);
            int pos = -1;
            for (size_t i = 0; i < scan; i++) if (mac_at(d.buf + 36 + 6 * i) == n.attr.mac) { pos = (int)i; break; }
            std::set<int> allowed;
            if (count == 0) { allowed = {changed ? 5 : 3, changed ? 4 : 2}; w.note("c11_empty_list"); }
            else if (pos >= 0) { allowed = {changed ? 5 : 3}; w.note("c11_acking"); w.note(pos == 0 ? "c11_pos_first" : (pos == (int)scan - 1 ? "c11_pos_last" : "c11_pos_middle")); }
            else if (count > fits) { allowed = {changed ? 4 : 2}; w.note("c11_overdeclared_list"); } // the entries the frame does not hold do not exist - a partial entry at the end, or bytes behind the frame, acknowledge nothing
            else { allowed = {changed ? 4 : 2}; w.note("c11_not_acking"); }
            if (changed) w.note("c11_changed_xid");
            if (scan >= 200) w.note("c11_long_list");
            if (!allowed.count(got))
                w.violate("C11", "discover-class", fmt("Discover with %zu stations (own address %s%d, session %s) classified as %d", count, pos >= 0 ? "at index " : "absent ", pos, changed ? "known under another sequence number" : "new or unchanged", got));
        } else {
            if (got != -1) w.violate("C11", "other-class", fmt("opcode %u classified as session event %d, expected none", op, got));
        }
    }
};

// ---------------------------------------------------------------- C12: periodic Hello pacing
struct MonC12 : Monitor {
    std::map<int, uint64_t> last;
    // model-side clocks for the 30 s clause (never read back from the implementation): when the mapping session last saw traffic
    // (frame level: any received frame; API level: mapping_reset_inactive_timeout) and when a session was last added
    std::map<int, uint64_t> traffic_s, added_s;
    std::map<int, bool> have_traffic;
    std::map<int, FlowTable> ft; // frame level: the sessions the documented flow must be holding
    const char *prop() const override { return "C12"; }
    void check(World &w, int node, const std::vector<TxRec> &txs, const glue_view &after) {
        int n = 0;
        for (auto &tx : txs) {
            if (tx.channel != 1) continue;
            n++;
            w.note("c12_periodic_hello");
            if (have_traffic[node]) {
                uint64_t deadline = traffic_s[node] + 30; // the tick that runs at or after this second drops every session before it may send anything
                bool readded = added_s.count(node) && added_s[node] + 1 >= deadline;
                if (tx.t / 1000 >= deadline + 1 && !readded)
                    w.violate("C12", "hello-after-inactivity", fmt("periodic Hello at t=%llu ms, %llu s after the mapping session last saw traffic (sessions must have been dropped after 30 s)", (unsigned long long)tx.t, (unsigned long long)(tx.t / 1000 - traffic_s[node])));
                if (tx.t / 1000 >= traffic_s[node] + 25) w.note("c12_hello_late_in_session");
            }
            if (!tx.in_tick) w.violate("C12", "outside-tick", "periodic Hello emitted outside the periodic tick");
            int live = 0, incomplete = 0;
            for (int i = 0; i < 16; i++) if (after.ent[i].valid) { live++; if (!after.ent[i].complete) incomplete++; }
            if (live == 0) w.violate("C12", "hello-with-empty-table", fmt("periodic Hello at t=%llu while the session table is empty", (unsigned long long)tx.t));
            else if (incomplete == 0) w.violate("C12", "hello-all-complete", "periodic Hello while every session is complete");
            if (!w.plan.api_world && ft.count(node)) { // the same clause judged on the reference table of the flow
                const FlowTable &f = ft[node];
                if (f.m.empty()) w.violate("C12", "hello-with-empty-table", fmt("periodic Hello at t=%llu although every session has been reset, expired or dropped (reference table of the flow is empty)", (unsigned long long)tx.t));
                else if (f.incomplete_possible() == 0) w.violate("C12", "hello-all-complete", fmt("periodic Hello at t=%llu although every session the flow holds has been acknowledged", (unsigned long long)tx.t));
            }
            auto it = last.find(node);
            if (it != last.end()) {
                if (tx.t - it->second < 1000) w.violate("C12", "hello-too-soon", fmt("periodic Hellos %llu ms apart on one interface (t=%llu)", (unsigned long long)(tx.t - it->second), (unsigned long long)tx.t));
                if (tx.t - it->second < 1100) w.note("c12_near_floor");
            }
            last[node] = tx.t;
        }
        if (n > 1) w.violate("C12", "hello-too-soon", "more than one periodic Hello in one tick");
    }
    void on_delivery(World &w, Delivery &d) override {
        if (d.ran && w.nodes[d.node]->cfg.glue == GLUE_DARWIN) { // the documented flow re-arms the inactivity deadline on every frame
            traffic_s[d.node] = d.t / 1000; have_traffic[d.node] = true;
            if (d.buf[OFF_OP] == W_DISCOVER) added_s[d.node] = d.t / 1000;
            ft[d.node].frame(d, w.nodes[d.node]->attr.mac, d.before.mapping_state, d.after.mapping_state);
        }
        check(w, d.node, d.txs, d.after);
    }
    // API level: the sessions the table must be holding, kept by the monitor itself (key -> complete flag, second of last refresh)
    struct ASess { bool complete; uint64_t last_s; };
    std::map<std::pair<Mac, uint16_t>, ASess> am;
    bool a_armed = false; uint64_t a_deadline = 0;
    void on_api(World &w, int, const Op &op, const glue_view &, const glue_view &, int64_t) override {
        uint64_t now_s = w.now / 1000;
        auto key = std::make_pair(api_key_mac((int)op.a[0]), api_key_gen((int)op.a[0]));
        if (op.kind == OP_A_INACT) { traffic_s[0] = now_s; have_traffic[0] = true; a_armed = true; a_deadline = now_s + 30; }
        if (op.kind == OP_A_TADD) {
            added_s[0] = now_s;
            auto it = am.find(key);
            if (it != am.end()) it->second.last_s = now_s; else if (am.size() < 16) am[key] = ASess{false, now_s};
        }
        if (op.kind == OP_A_TREM) am.erase(key);
        if (op.kind == OP_A_TCLR) am.clear();
        if (op.kind == OP_A_TCOMPL) { auto it = am.find(key); if (it != am.end()) it->second.complete = op.a[1] != 0; }
        if (op.kind == OP_A_REINIT) { have_traffic[0] = false; added_s.erase(0); last.erase(0); am.clear(); a_armed = false; /* a restarted daemon has no memory of its last Hello either */ }
    }
    void on_tick(World &w, TickRec &t) override {
        if (!w.plan.api_world && ft.count(t.node)) ft[t.node].tick(t.t / 1000);
        if (w.plan.api_world && t.node == 0) { // what the tick itself must do to the table before it may send anything
            uint64_t now_s = t.t / 1000;
            if (a_armed && now_s >= a_deadline) { a_armed = false; am.clear(); }
            for (auto it = am.begin(); it != am.end();) { if (now_s > it->second.last_s + 60) it = am.erase(it); else ++it; }
            bool hello = false;
            for (auto &tx : t.txs) if (tx.channel == 1) hello = true;
            if (hello) {
                size_t inc = 0;
                for (auto &kv : am) if (!kv.second.complete) inc++;
                if (am.empty()) w.violate("C12", "hello-with-empty-table", fmt("periodic Hello at t=%llu although every session has been removed, has expired (60 s) or was dropped by the inactivity deadline (model of the table)", (unsigned long long)t.t));
                else if (inc == 0) w.violate("C12", "hello-all-complete", fmt("periodic Hello at t=%llu although every session is complete (model of the table)", (unsigned long long)t.t));
            }
        }
        check(w, t.node, t.txs, t.after);
        // API level: once the deadline has fired it is disarmed until the next mapping_reset_inactive_timeout
        if (w.plan.api_world && have_traffic[t.node] && t.t / 1000 >= traffic_s[t.node] + 31) have_traffic[t.node] = false;
        if (t.before.table_count > 0 && t.after.table_count == 0) w.note("c12_table_emptied_by_tick");
        if (t.before.enum_state == 2 && t.after.enum_state == 1) w.note("c12_wait_to_pausing");
        if (t.before.enum_state != 0 && t.after.enum_state == 0) w.note("c12_enum_to_quiescent");
        if (t.before.band_hello_ts > 0 && t.t >= t.before.band_hello_ts && t.txs.empty() && t.before.enum_state == 1 && t.after.enum_state == 1) w.note("c12_suppressed");
    }
};

// ---------------------------------------------------------------- C13: RepeatBand formula
struct MonC13 : Monitor {
    struct Last { bool have = false; uint32_t Ni0; int begun0; uint32_t r; uint64_t interval; };
    Last last;
    // the model's own count of Hellos heard in the current block (the implementation's counter is what is being judged)
    std::map<int, uint64_t> rm;
    const char *prop() const override { return "C13"; }
    static uint32_t formula(uint64_t r) { unsigned __int128 v = (unsigned __int128)45 * r * r; return v > 10000 ? 10000u : (uint32_t)v; }
    static uint64_t min_interval(uint32_t Ni) { uint64_t num = 80ull * Ni, iv = num / 30 + (num % 30 ? 1 : 0); return iv < 6 ? 6 : iv; }
    void block_end(World &w, int node, uint64_t t, const glue_view &b, const glue_view &a, bool begun_eff, bool injected) {
        uint64_t r = rm[node];
        rm[node] = 0;
        w.note(injected ? "c13_block_end_injected_r" : "c13_block_end_real_r");
        if (r >= 65536) w.note("c13_r_ge_65536");
        if (r >= 10 && r < 65536) w.note("c13_r_10_to_65535");
        if (r > 0 && r < 10) w.note("c13_r_1_to_9");
        if (r > 0 && !begun_eff) w.note("c13_hellos_before_begun");
        if (r > 0 && begun_eff) {
            uint32_t want = formula(r);
            if (a.band_Ni != want) w.violate("C13", "ni-formula", fmt("block end with r=%llu Hellos heard in the block: repetition count became %u, expected min(10000, 45*r^2) = %u", (unsigned long long)r, a.band_Ni, want));
        } else if (a.band_Ni != b.band_Ni) w.violate("C13", "ni-changed-without-load", fmt("block end with r=%llu begun=%d changed the count from %u to %u", (unsigned long long)r, begun_eff, b.band_Ni, a.band_Ni));
        if (a.band_Ni < 45 || a.band_Ni > 10000) w.violate("C13", "ni-range", fmt("repetition count %u outside [45, 10000] after a block with r=%llu", a.band_Ni, (unsigned long long)r));
        uint64_t need = min_interval(a.band_Ni);
        if (a.band_hello_ts < t + need) w.violate("C13", "interval-too-short", fmt("next Hello scheduled %lld ms after the block end, load formula for count %u requires >= %llu", (long long)(a.band_hello_ts - t), a.band_Ni, (unsigned long long)need));
        uint64_t interval = a.band_hello_ts - t;
        bool formula_applies = r > 0 && begun_eff; // monotonicity is a consequence of the formula: compare only blocks it governs
        if (last.have && formula_applies && last.Ni0 == b.band_Ni) {
            w.note("c13_monotone_pair");
            if ((last.r <= r && last.interval > interval) || (last.r >= r && last.interval < interval))
                w.violate("C13", "not-monotone", fmt("from the same state, r=%u gives interval %llu ms but r=%llu gives %llu ms", last.r, (unsigned long long)last.interval, (unsigned long long)r, (unsigned long long)interval));
        }
        if (formula_applies) last = {true, b.band_Ni, 1, (uint32_t)std::min<uint64_t>(r, 0xFFFFFFFFull), interval}; else last.have = false;
    }
    // model-side "enumeration has begun": we sent a periodic Hello, or heard GAMMA (10) Hellos in one block, or a Discover arrived
    // while already enumerating; cleared when an enumeration (re)starts from Quiescent
    std::map<int, bool> bm;
    // while the enumeration is Pausing, a tick leaves the 300 ms block deadline armed and in the future - otherwise no block ever ends
    // again and the formula is never applied (states are reached through the documented flow only in C13 plans)
    void armed_after_tick(World &w, uint64_t t, const glue_view &a, const char *ctx) {
        if (!a.have_band || !a.have_enum || a.enum_state != 1) return;
        w.note("c13_pausing_after_tick");
        if (a.band_block_ts == 0 || a.band_block_ts <= t)
            w.violate("C13", "block-timer-unarmed", fmt("%s at t=%llu leaves RepeatBand pausing with its block deadline %s: the load of the next blocks will never be evaluated", ctx, (unsigned long long)t, a.band_block_ts == 0 ? "unarmed" : "in the past"));
        else if (a.band_block_ts > t + 300)
            w.violate("C13", "block-timer-unarmed", fmt("%s at t=%llu leaves the block deadline %llu ms ahead (a block lasts 300 ms)", ctx, (unsigned long long)t, (unsigned long long)(a.band_block_ts - t)));
    }
    void on_tick(World &w, TickRec &t) override {
        if (!t.before.have_band) return;
        armed_after_tick(w, t.t, t.after, "tick");
        bool sent = false;
        for (auto &tx : t.txs) if (tx.channel == 1) sent = true;
        if (sent) bm[t.node] = true;
        if (t.after.band_block_ts != t.before.band_block_ts && t.after.band_block_ts != 0 && t.before.band_block_ts != 0)
            block_end(w, t.node, t.t, t.before, t.after, bm[t.node], w.plan.api_world);
        if (t.after.enum_state == 0) bm[t.node] = false;
    }
    void on_delivery(World &w, Delivery &d) override {
        if (!d.ran || !d.before.have_band || w.nodes[d.node]->cfg.glue != GLUE_DARWIN) return;
        uint8_t op = d.buf[OFF_OP];
        bool restart = op == W_DISCOVER && d.before.enum_state == 0;
        if (op == W_HELLO) { rm[d.node]++; if (rm[d.node] >= 10) bm[d.node] = true; } // heard in the current block
        if (restart) { rm[d.node] = 0; bm[d.node] = false; }                            // a new enumeration (and its first block) starts with this frame
        else if (op == W_DISCOVER) bm[d.node] = true;                                   // a Discover during an enumeration marks it begun
        bool sent = false;
        for (auto &tx : d.txs) if (tx.channel == 1) sent = true;
        if (sent) bm[d.node] = true;
        // the tick that follows every frame in the Darwin flow can end a block
        if (d.after.band_block_ts != d.before.band_block_ts && d.after.band_block_ts != 0 && d.before.band_block_ts != 0 && !restart)
            block_end(w, d.node, d.after.band_block_ts - 300, d.before, d.after, bm[d.node], false);
        if (d.after.enum_state == 0) bm[d.node] = false;
        armed_after_tick(w, std::max(d.t, w.port_now_ms()), d.after, "the tick after a frame");
    }
    void on_api(World &w, int, const Op &op, const glue_view &b, const glue_view &a, int64_t) override {
        if (op.kind == OP_A_TICK) armed_after_tick(w, w.now, a, "tick");
        if (op.kind == OP_A_REINIT) { rm[0] = 0; bm[0] = false; last.have = false; return; }
        if (op.kind == OP_A_HEARD) { rm[0] += (uint64_t)op.a[0]; if (rm[0] >= 10) bm[0] = true; }
        else if (op.kind == OP_A_SETR) { rm[0] = (uint64_t)op.a[0]; if (rm[0] >= 10) bm[0] = true; }
        else if (op.kind == OP_A_BANDSET) bm[0] = op.a[1] != 0;
        else if (op.kind == OP_A_DISCBOOK) { if (b.enum_state == 0) { rm[0] = 0; bm[0] = false; } else bm[0] = true; }
        else if (op.kind == OP_A_BLOCKEND) block_end(w, 0, w.now, b, a, bm[0], true);
        if (op.kind != OP_A_TICK && op.kind != OP_A_ADV && a.have_enum && a.enum_state == 0 && b.enum_state != 0) bm[0] = false;
    }
};

// ---------------------------------------------------------------- C14: mapping engine
struct MonC14 : Monitor {
    std::map<int, uint64_t> inact_reset_s; // last mapping_reset_inactive_timeout (whole seconds), per node
    std::map<int, bool> inact_dirty;       // API world: state legitimately changed after the deadline may have fired
    std::map<int, uint64_t> last_input_s;  // the model's own record of when the engine last saw an input (never read back from the implementation)
    void on_start(World &w) override { for (size_t i = 0; i < w.nodes.size(); i++) last_input_s[(int)i] = w.now / 1000; }
    const char *prop() const override { return "C14"; }
    static std::set<int> step(int s, int input, uint64_t elapsed, const int *timeout, bool fuzzy) {
        std::set<int> r;
        auto table = [&](int st) -> int {
            if (st == 0) return input == 0 ? 1 : 0;
            if (st == 1) return input == 2 ? 2 : (input == 8 || input == -1) ? 0 : 1;
            return input == -3 ? 1 : (input == 8 || input == -1) ? 0 : 2;
        };
        bool timed = s != 0 && elapsed > (uint64_t)timeout[s];
        bool maybe_timed = fuzzy && s != 0 && elapsed + 1 > (uint64_t)timeout[s];
        bool maybe_not = fuzzy && s != 0 && elapsed > 0 && elapsed - 1 <= (uint64_t)timeout[s];
        if (timed || maybe_timed) { r.insert(0); if (input == 0) r.insert(1); }
        if (!timed || maybe_not) r.insert(table(s));
        return r;
    }
    void check_timeouts(World &w, const glue_view &v) {
        for (int s = 1; s <= 2; s++) if (v.mapping_timeout[s] <= 0 || v.mapping_timeout[s] > 30) w.violate("C14", "timeout-range", fmt("active state %d has timeout %d s", s, v.mapping_timeout[s]));
    }
    uint64_t entry_s = 0; // the clock second at which the operation entered the core: the engine stamps an input with the second it read on entry, however long the port's log calls then take
    void pre_api(World &w, int, const Op &) override { entry_s = w.now / 1000; }
    void on_api(World &w, int, const Op &op, const glue_view &b, const glue_view &a, int64_t) override {
        if (op.kind == OP_A_ADV || op.kind == OP_A_REINIT) entry_s = w.now / 1000; // these do not pass through pre_api
        if (op.kind == OP_A_REINIT) { last_input_s[0] = entry_s; inact_reset_s.erase(0); inact_dirty[0] = false; return; }
        if (op.kind == OP_A_INACT) { inact_reset_s[0] = entry_s; inact_dirty[0] = false; }
        if ((op.kind == OP_A_TADD || op.kind == OP_A_MAP || op.kind == OP_A_CHARGE || op.kind == OP_A_SETMAP) && inact_reset_s.count(0) && entry_s - inact_reset_s[0] >= 29) inact_dirty[0] = true;
        if (op.kind == OP_A_SETMAP) last_input_s[0] = entry_s - (uint64_t)op.a[1];
        if (op.kind == OP_A_TICK && b.mapping_state != 0 && a.mapping_state == 0) last_input_s[0] = entry_s; // the tick fed the timeout event
        if (op.kind != OP_A_MAP) return;
        check_timeouts(w, b);
        uint64_t el = entry_s - last_input_s[0];
        last_input_s[0] = entry_s;
        int in = (int)op.a[0];
        auto allowed = step(b.mapping_state, in, el, b.mapping_timeout, false);
        int ec = el == 0 ? 0 : (b.mapping_state && el + 1 == (uint64_t)b.mapping_timeout[b.mapping_state]) ? 1 : (b.mapping_state && el == (uint64_t)b.mapping_timeout[b.mapping_state]) ? 2 : (b.mapping_state && el == (uint64_t)b.mapping_timeout[b.mapping_state] + 1) ? 3 : 4;
        w.cell(14, ((uint64_t)b.mapping_state << 16) | ((uint64_t)(in + 128) << 4) | (uint64_t)ec);
        w.note("c14_api_step");
        if (!allowed.count(a.mapping_state))
            w.violate("C14", "transition", fmt("state %d, input %d, %llu s since last input (timeout %d): went to %d", b.mapping_state, in, (unsigned long long)el, b.mapping_timeout[b.mapping_state], a.mapping_state));
    }
    void tick_rule(World &w, int node, uint64_t t, const glue_view &b, const glue_view &a) {
        if (!b.have_mapping || !b.have_mstate) return;
        auto it = inact_reset_s.find(node);
        if (it == inact_reset_s.end()) return;
        uint64_t idle = t / 1000 - it->second;
        if (inact_dirty[node]) return;
        if (idle >= 31) {
            w.note("c14_inactive_tick");
            int live = 0;
            for (int i = 0; i < 16; i++) if (a.ent[i].valid) live++;
            if (a.mapping_state != 0 || a.ctc != 0 || a.table_count != 0 || live != 0)
                w.violate("C14", "inactivity-tick", fmt("%llu s without a frame: after the tick state=%d charge=%d session count=%d live session entries=%d", (unsigned long long)idle, a.mapping_state, a.ctc, a.table_count, live));
        } else if (idle < 29) {
            if (a.mapping_state != b.mapping_state) w.violate("C14", "premature-inactivity", fmt("tick changed the mapping state %d -> %d only %llu s after the last frame", b.mapping_state, a.mapping_state, (unsigned long long)idle));
            bool old = false;
            for (int i = 0; i < 16; i++) if (b.ent[i].valid && t / 1000 >= b.ent[i].last_ts + 59) old = true;
            if (b.table_count > 0 && a.table_count == 0 && !old) w.violate("C14", "premature-inactivity", fmt("tick emptied the session table only %llu s after the last frame", (unsigned long long)idle));
        }
    }
    void on_tick(World &w, TickRec &t) override {
        tick_rule(w, t.node, t.t, t.before, t.after);
        if (t.before.mapping_state != 0 && t.after.mapping_state == 0) last_input_s[t.node] = t.t / 1000;
    }
    void on_delivery(World &w, Delivery &d) override {
        if (!d.ran || !d.before.have_mapping) return;
        int glue = w.nodes[d.node]->cfg.glue;
        if (glue != GLUE_DARWIN && glue != GLUE_LEGACY) return;
        check_timeouts(w, d.before);
        if (!last_input_s.count(d.node)) last_input_s[d.node] = w.plan.t0 / 1000;
        uint64_t el = d.t / 1000 - last_input_s[d.node];
        last_input_s[d.node] = d.t / 1000;
        auto allowed = step(d.before.mapping_state, d.buf[OFF_OP], el, d.before.mapping_timeout, true);
        w.note("c14_passive_step");
        if (!allowed.count(d.after.mapping_state))
            w.violate("C14", "transition", fmt("frame with opcode %u in state %d (%llu s since last input): went to %d", d.buf[OFF_OP], d.before.mapping_state, (unsigned long long)el, d.after.mapping_state));
        if (glue == GLUE_DARWIN) inact_reset_s[d.node] = d.t / 1000; // darwin flow re-arms the deadline on every frame
    }
};

// ---------------------------------------------------------------- C15: session automaton
struct MonC15 : Monitor {
    std::map<int, uint64_t> last_input_s; // model-side time of the last session event
    void on_start(World &w) override { for (size_t i = 0; i < w.nodes.size(); i++) last_input_s[(int)i] = w.now / 1000; }
    const char *prop() const override { return "C15"; }
    static std::set<int> table(int s, int e) {
        switch (s) {
        case 1: // Nascent
            switch (e) { case 0: return {0}; case 2: return {2}; case 3: return {3}; case 4: return {1, 2}; case 5: return {1, 3}; default: return {1}; }
        case 0: // Temporary
            return (e == 1 || e == 6 || e == 7) ? std::set<int>{1} : std::set<int>{0};
        case 2: // Pending
            switch (e) { case 3: case 5: return {3}; case 1: return {1}; case 6: return {2, 1}; default: return {2}; }
        default: // Complete
            switch (e) { case 4: return {2}; case 1: return {1}; case 6: return {3, 1}; default: return {3}; }
        }
    }
    static std::set<int> step(int s, int e, uint64_t el, const int *timeout, bool fuzzy) {
        std::set<int> r;
        bool timed = el > (uint64_t)timeout[s];
        bool maybe_timed = fuzzy && el + 1 > (uint64_t)timeout[s];
        bool maybe_not = fuzzy && el > 0 && el - 1 <= (uint64_t)timeout[s];
        if (timed || maybe_timed) { r.insert(1); for (int x : table(1, e)) r.insert(x); }
        if (!timed || maybe_not) for (int x : table(s, e)) r.insert(x);
        return r;
    }
    uint64_t entry_s = 0; // the clock second at which the operation entered the core (the call itself may take time)
    void pre_api(World &w, int, const Op &) override { entry_s = w.now / 1000; }
    void on_api(World &w, int, const Op &op, const glue_view &b, const glue_view &a, int64_t) override {
        if (op.kind == OP_A_ADV || op.kind == OP_A_TICK || op.kind == OP_A_REINIT) entry_s = w.now / 1000; // these do not pass through pre_api
        if (op.kind == OP_A_SETSESS) last_input_s[0] = entry_s - (uint64_t)op.a[1];
        if (op.kind == OP_A_REINIT) { last_input_s[0] = entry_s; if (a.session_state != 1) w.violate("C15", "initial-state", fmt("a new session automaton starts in state %d, not Nascent", a.session_state)); return; }
        if (op.kind != OP_A_SESS) return;
        int e = (int)op.a[0];
        uint64_t el = entry_s - last_input_s[0];
        last_input_s[0] = entry_s;
        if (e < 0 || e > 7 || b.session_state < 0 || b.session_state > 3) return;
        int to = b.session_timeout[b.session_state];
        int ec = el == 0 ? 0 : (el + 1 == (uint64_t)to) ? 1 : (el == (uint64_t)to) ? 2 : (el == (uint64_t)to + 1) ? 3 : 4;
        w.cell(15, ((uint64_t)b.session_state << 8) | ((uint64_t)e << 4) | (uint64_t)ec);
        w.note("c15_api_step");
        auto allowed = step(b.session_state, e, el, b.session_timeout, false);
        if (!allowed.count(a.session_state))
            w.violate("C15", "transition", fmt("state %d, session event %d, %llu s since last input (timeout %d): went to %d", b.session_state, e, (unsigned long long)el, to, a.session_state));
    }
    void on_delivery(World &w, Delivery &d) override {
        if (!d.ran || !d.before.have_session || w.nodes[d.node]->cfg.glue != GLUE_DARWIN) return;
        int e = d.after.last_sess_event;
        if (e < 0) return; // the Darwin flow feeds the session automaton only when the classifier produced an event
        if (!last_input_s.count(d.node)) last_input_s[d.node] = w.plan.t0 / 1000;
        uint64_t el = d.t / 1000 - last_input_s[d.node];
        last_input_s[d.node] = d.t / 1000;
        if (e > 7 || d.before.session_state > 3) return;
        auto allowed = step(d.before.session_state, e, el, d.before.session_timeout, true);
        w.note("c15_passive_step");
        if (!allowed.count(d.after.session_state))
            w.violate("C15", "transition", fmt("frame classified as event %d in state %d (%llu s since last input): went to %d", e, d.before.session_state, (unsigned long long)el, d.after.session_state));
    }
};

// ---------------------------------------------------------------- C16: session table vs dictionary model
struct MonC16 : Monitor {
    struct Ent { uint16_t seq; bool complete; uint64_t last_s; int slot; };
    std::map<std::pair<Mac, uint16_t>, Ent> model;
    const char *prop() const override { return "C16"; }
    static void invariants(World &w, const glue_view &v, const char *ctx) {
        if (!v.have_table) return;
        int live = 0, incomplete = 0;
        std::set<std::pair<Mac, uint16_t>> keys;
        for (int i = 0; i < 16; i++) if (v.ent[i].valid) {
            live++;
            if (!v.ent[i].complete) incomplete++;
            Mac m; memcpy(m.a, v.ent[i].mac, 6);
            if (!keys.insert({m, v.ent[i].gen}).second) w.violate("C16", "duplicate-session", std::string(ctx) + ": two live sessions for one (mapper, generation)");
        }
        if (v.table_count != live) w.violate("C16", "count-mismatch", fmt("%s: count says %d, %d live sessions", ctx, v.table_count, live));
        if ((v.table_is_empty_fn != 0) != (live == 0)) w.violate("C16", "empty-flag", fmt("%s: is_empty says %d with %d live sessions", ctx, v.table_is_empty_fn, live));
        if ((v.table_all_complete_fn != 0) != (incomplete == 0)) w.violate("C16", "all-complete-flag", fmt("%s: all_complete says %d with %d incomplete of %d live sessions", ctx, v.table_all_complete_fn, incomplete, live));
    }
    void compare(World &w, const glue_view &v, const char *ctx) {
        invariants(w, v, ctx);
        int live = 0;
        for (int i = 0; i < 16; i++) if (v.ent[i].valid) {
            live++;
            Mac m; memcpy(m.a, v.ent[i].mac, 6);
            auto it = model.find({m, v.ent[i].gen});
            if (it == model.end()) { w.violate("C16", "phantom-session", std::string(ctx) + ": table holds a session the model does not (mapper " + m.str() + ")"); return; }
            if (it->second.seq != v.ent[i].seq) w.violate("C16", "seq-mismatch", fmt("%s: session sequence %u, model %u", ctx, v.ent[i].seq, it->second.seq));
            if (it->second.last_s != v.ent[i].last_ts) w.violate("C16", "activity-time", fmt("%s: activity time %llu, model %llu", ctx, (unsigned long long)v.ent[i].last_ts, (unsigned long long)it->second.last_s));
            if (it->second.complete != (v.ent[i].complete != 0)) w.violate("C16", "complete-mismatch", std::string(ctx) + ": completion flag differs from model");
        }
        if ((size_t)live != model.size()) w.violate("C16", "lost-session", fmt("%s: table holds %d live sessions, model %zu", ctx, live, model.size()));
    }
    bool inact_armed = false; uint64_t inact_deadline_s = 0; // model of the mapping engine's inactivity deadline (API walks)
    void on_api(World &w, int, const Op &op, const glue_view &b, const glue_view &a, int64_t ret) override {
        Mac km = api_key_mac((int)op.a[0]);
        uint16_t kg = api_key_gen((int)op.a[0]);
        auto key = std::make_pair(km, kg);
        uint64_t now_s = w.now / 1000;
        if (op.kind == OP_A_REINIT) { model.clear(); inact_armed = false; compare(w, a, "A_REINIT"); return; }
        switch (op.kind) {
        case OP_A_INACT: inact_armed = true; inact_deadline_s = now_s + 30; w.note("c16_inactivity_armed"); break;
        case OP_A_TADD: {
            auto it = model.find(key);
            if (it != model.end()) {
                w.note("c16_refresh");
                if (ret != it->second.slot) w.violate("C16", "refresh-identity", fmt("adding a known session returned slot %lld, the session lives in slot %d", (long long)ret, it->second.slot));
                it->second.seq = (uint16_t)op.a[1]; it->second.last_s = now_s;
            } else if (model.size() >= 16) {
                w.note("c16_add_when_full");
                if (ret >= 0) w.violate("C16", "add-when-full", "adding a 17th session succeeded");
                if (memcmp(b.ent, a.ent, sizeof(b.ent)) != 0) w.violate("C16", "add-when-full-disturbed", "a failed add modified existing sessions");
            } else {
                if (ret < 0 || ret > 15) { w.violate("C16", "add-failed", fmt("adding a new session to a table of %zu failed", model.size())); break; }
                for (auto &kv : model) if (kv.second.slot == ret) w.violate("C16", "slot-reused", "new session placed over a live one");
                model[key] = Ent{(uint16_t)op.a[1], false, now_s, (int)ret};
                w.note("c16_add_new");
            }
            break;
        }
        case OP_A_TFIND: {
            auto it = model.find(key);
            if (it == model.end()) { if (ret >= 0) w.violate("C16", "find-phantom", "find returned a session that was never added or was removed"); w.note("c16_find_miss"); }
            else { if (ret != it->second.slot) w.violate("C16", "find-miss", fmt("find returned %lld for a live session in slot %d", (long long)ret, it->second.slot)); w.note("c16_find_hit"); }
            break;
        }
        case OP_A_TREM: if (model.erase(key)) w.note("c16_remove_hit"); else w.note("c16_remove_miss"); break;
        case OP_A_TCLR: model.clear(); w.note("c16_clear"); break;
        case OP_A_TCOMPL: { auto it = model.find(key); if (it != model.end()) { it->second.complete = op.a[1] != 0; w.note("c16_complete_update"); } break; }
        case OP_A_TICK: {
            // the one tick at or after an armed inactivity deadline empties the table and disarms the deadline; no other tick may
            if (inact_armed && now_s >= inact_deadline_s) { inact_armed = false; if (!model.empty()) w.note("c16_inactivity_cleared_sessions"); model.clear(); }
            for (auto it = model.begin(); it != model.end();) {
                if (now_s > it->second.last_s + 60) { it = model.erase(it); w.note("c16_expired"); } else ++it;
            }
            break;
        }
        default: return;
        }
        w.cell(16, ((uint64_t)op.kind << 4) | (uint64_t)(model.size() == 0 ? 0 : model.size() < 8 ? 1 : model.size() < 16 ? 2 : 3));
        compare(w, a, op_name(op.kind));
    }
    std::map<int, FlowTable> ft;
    void flow_compare(World &w, int node, const glue_view &v, const char *ctx) {
        const FlowTable &f = ft[node];
        int live = 0;
        for (int i = 0; i < 16; i++) if (v.ent[i].valid) {
            live++;
            Mac m; memcpy(m.a, v.ent[i].mac, 6);
            if (!f.m.count({m, v.ent[i].gen})) { w.violate("C16", "phantom-session", std::string(ctx) + ": the table holds a session of mapper " + m.str() + " that was reset, expired or dropped"); return; }
        }
        if ((size_t)live != f.m.size()) w.violate("C16", "lost-session", fmt("%s: the table holds %d live sessions, the frames received imply %zu", ctx, live, f.m.size()));
        w.note("c16_flow_table_compared");
    }
    void on_delivery(World &w, Delivery &d) override {
        if (!d.after.have_table) return;
        invariants(w, d.after, "after frame"); w.note("c16_passive_invariant");
        if (d.ran && w.nodes[d.node]->cfg.glue == GLUE_DARWIN) { ft[d.node].frame(d, w.nodes[d.node]->attr.mac, d.before.mapping_state, d.after.mapping_state); flow_compare(w, d.node, d.after, "after frame"); }
    }
    void on_tick(World &w, TickRec &t) override {
        if (!w.plan.api_world && t.after.have_table) {
            invariants(w, t.after, "after tick");
            if (ft.count(t.node)) { ft[t.node].tick(t.t / 1000); flow_compare(w, t.node, t.after, "after tick"); }
            // expiry rule, passively: sessions idle > 60 s are gone, fresher ones survive unless the 30 s mapping inactivity cleared the table
            for (int i = 0; i < 16; i++) if (t.before.ent[i].valid) {
                bool idle = t.t / 1000 > t.before.ent[i].last_ts + 60;
                if (idle && t.after.ent[i].valid && memcmp(t.after.ent[i].mac, t.before.ent[i].mac, 6) == 0 && t.after.ent[i].last_ts == t.before.ent[i].last_ts)
                    w.violate("C16", "stale-session-survived", "a session idle for more than 60 s survived the tick");
            }
        }
    }
};

// ---------------------------------------------------------------- C19: memory bounded, nothing leaked
struct MonC19 : Monitor {
    const char *prop() const override { return "C19"; }
    void on_delivery(World &w, Delivery &d) override {
        const Node &n = *w.nodes[d.node];
        uint8_t tos = d.buf[OFF_TOS], op = d.buf[OFF_OP];
        uint64_t live = (size_t)d.node < w.node_live_count.size() ? w.node_live_count[d.node] : 0;
        int allowed = 0;
        if (live == (uint64_t)d.born_live) allowed++; // nothing was retained before this frame: the per-interface record may be created now
        bool probeish = d.ran && tos == 0 && (op == W_PROBE || op == W_TRAIN) && (mac_at(d.buf + OFF_RDST) == n.attr.mac || mac_at(d.buf + OFF_EDST) == n.attr.mac || (node_getfail(w, d.node) & G_MAC));
        if (probeish) allowed++;
        bool iconreq = d.ran && disc_tos(tos) && op == W_QLT && d.buf[32] == 0x0E;
        int other = d.born_live - d.born_live_icon - d.born_live_fname;
        if (d.born_live_icon > (iconreq ? 1 : 0)) w.violate("C19", "leak-per-frame", fmt("icon buffer obtained while handling opcode %u and never released", op));
        else if (d.born_live_fname > 0) w.violate("C19", "leak-per-frame", "friendly-name buffer obtained from the platform was not released before the handler returned");
        else if (other > allowed)
            w.violate("C19", "leak-per-frame", fmt("%d allocation(s) made while handling opcode %u (tos %u) are still live afterwards; %d may be retained state", other, op, tos, allowed));
        if (d.born_live > 0) w.note("c19_retained_allocation");
        uint64_t bytes = (size_t)d.node < w.node_live_bytes.size() ? w.node_live_bytes[d.node] : 0;
        uint64_t icon = (size_t)d.node < w.node_icon_bytes.size() ? w.node_icon_bytes[d.node] : 0;
        if (bytes > 65536 + icon) w.violate("C19", "unbounded-retention", fmt("%llu bytes (%llu allocations) retained for one interface after %llu frames", (unsigned long long)bytes, (unsigned long long)live, (unsigned long long)d.id));
        if (bytes > 8192) w.note("c19_retained_over_8k");
        if (d.ran && tos == 0 && op == W_RESET) {
            w.note("c19_reset_checked");
            if (live > 1) w.violate("C19", "retained-after-reset", fmt("%llu allocations (%llu bytes) remain for the interface after a Reset; only the per-interface record may", (unsigned long long)live, (unsigned long long)bytes));
        }
    }
};

// ---------------------------------------------------------------- registry
std::vector<Monitor *> make_monitors(const std::string &prop, World &) {
    std::vector<Monitor *> v;
    auto add = [&](const char *p, Monitor *m) { if (prop == p || prop == "ALL") v.push_back(m); else delete m; };
    add("C01", new MonC01()); add("C02", new MonC02()); add("C03", new MonC03()); add("C04", new MonC04()); add("C05", new MonC05());
    add("C06", new MonC06()); add("C07", new MonC07()); add("C08", new MonC08()); add("C10", new MonC10()); add("C11", new MonC11());
    add("C12", new MonC12()); add("C13", new MonC13()); add("C14", new MonC14()); add("C15", new MonC15()); add("C16", new MonC16());
    add("C19", new MonC19());
    if (prop == "C18") { v.push_back(new MonC02()); v.push_back(new MonC19()); v.push_back(new MonC08()); v.push_back(new MonC06()); }
    if (prop == "C02") v.push_back(new MonC08()); // the per-response relation of a QueryLargeTlvResp (length, flag, bytes at the offset) belongs to the inner structure the opcode prescribes
    if (prop == "C09" || prop == "C17") { /* twin / solo comparison is done by the world and the driver */ }
    return v;
}
