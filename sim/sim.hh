// sim.hh -- deterministic simulator kernel: PRNG, wire codec, plan, world.
#pragma once
#include <algorithm>
#include <array>
#include <cstdint>
#include <cstdio>
#include <cstdlib>
#include <cstring>
#include <functional>
#include <map>
#include <memory>
#include <queue>
#include <set>
#include <string>
#include <tuple>
#include <cstdarg>
#include <unordered_map>
#include <unordered_set>
#include <vector>

#include "simapi.h"

typedef std::vector<uint8_t> Bytes;

// ----------------------------------------------------------------- PRNG
static inline uint64_t splitmix64(uint64_t &x) {
    uint64_t z = (x += 0x9E3779B97F4A7C15ull);
    z = (z ^ (z >> 30)) * 0xBF58476D1CE4E5B9ull;
    z = (z ^ (z >> 27)) * 0x94D049BB133111EBull;
    return z ^ (z >> 31);
}
static inline uint64_t mix64(uint64_t a, uint64_t b) {
    uint64_t x = a * 0x9E3779B97F4A7C15ull ^ (b + 0x7F4A7C15ull + (a << 6) + (a >> 2));
    return splitmix64(x);
}
struct Rng {
    uint64_t s[4];
    explicit Rng(uint64_t seed = 1) { reseed(seed); }
    void reseed(uint64_t seed) {
        uint64_t x = seed;
        for (auto &v : s) v = splitmix64(x);
    }
    static inline uint64_t rotl(uint64_t x, int k) { return (x << k) | (x >> (64 - k)); }
    uint64_t next() {
        uint64_t r = rotl(s[1] * 5, 7) * 9, t = s[1] << 17;
        s[2] ^= s[0]; s[3] ^= s[1]; s[1] ^= s[2]; s[0] ^= s[3]; s[2] ^= t; s[3] = rotl(s[3], 45);
        return r;
    }
    uint64_t below(uint64_t n) { return n ? next() % n : 0; }               // [0,n)
    int64_t range(int64_t lo, int64_t hi) { return lo + (int64_t)below((uint64_t)(hi - lo + 1)); } // [lo,hi]
    bool chance(double p) { return (next() >> 11) * (1.0 / 9007199254740992.0) < p; }
    template <class T> const T &pick(const std::vector<T> &v) { return v[below(v.size())]; }
    int64_t pickl(std::initializer_list<int64_t> l) { return *(l.begin() + below(l.size())); }
};

// ----------------------------------------------------------------- hashing
struct Hash64 {
    uint64_t h = 0xcbf29ce484222325ull;
    void byte(uint8_t b) { h ^= b; h *= 0x100000001b3ull; }
    void u64(uint64_t v) { for (int i = 0; i < 8; i++) byte((uint8_t)(v >> (8 * i))); }
    void bytes(const void *p, size_t n) { const uint8_t *c = (const uint8_t *)p; for (size_t i = 0; i < n; i++) byte(c[i]); }
    void str(const std::string &s) { bytes(s.data(), s.size()); byte(0); }
};

// ----------------------------------------------------------------- MAC
struct Mac {
    uint8_t a[6];
    bool operator==(const Mac &o) const { return memcmp(a, o.a, 6) == 0; }
    bool operator!=(const Mac &o) const { return !(*this == o); }
    bool operator<(const Mac &o) const { return memcmp(a, o.a, 6) < 0; }
    bool is_bcast() const { for (int i = 0; i < 6; i++) if (a[i] != 0xFF) return false; return true; }
    std::string str() const { char b[20]; snprintf(b, sizeof b, "%02x:%02x:%02x:%02x:%02x:%02x", a[0], a[1], a[2], a[3], a[4], a[5]); return b; }
};
static const Mac MAC_BCAST = {{0xFF, 0xFF, 0xFF, 0xFF, 0xFF, 0xFF}};
static const Mac MAC_ZERO = {{0, 0, 0, 0, 0, 0}};

// ----------------------------------------------------------------- wire codec (independent of repo structs)
namespace wire {
enum { OFF_EDST = 0, OFF_ESRC = 6, OFF_ETYPE = 12, OFF_VER = 14, OFF_TOS = 15, OFF_RSVD = 16, OFF_OP = 17,
       OFF_RDST = 18, OFF_RSRC = 24, OFF_SEQ = 30, HDR = 32 };
enum { W_DISCOVER = 0, W_HELLO = 1, W_EMIT = 2, W_TRAIN = 3, W_PROBE = 4, W_ACK = 5, W_QUERY = 6, W_QUERYRESP = 7,
       W_RESET = 8, W_CHARGE = 9, W_FLAT = 10, W_QLT = 11, W_QLTRESP = 12 };
static inline uint16_t be16(const uint8_t *p) { return (uint16_t)((p[0] << 8) | p[1]); }
static inline uint32_t be32(const uint8_t *p) { return ((uint32_t)p[0] << 24) | ((uint32_t)p[1] << 16) | ((uint32_t)p[2] << 8) | p[3]; }
static inline void put16(uint8_t *p, uint16_t v) { p[0] = (uint8_t)(v >> 8); p[1] = (uint8_t)v; }
static inline Mac mac_at(const uint8_t *p) { Mac m; memcpy(m.a, p, 6); return m; }
static inline Bytes header(const Mac &edst, const Mac &esrc, uint8_t tos, uint8_t op, const Mac &rdst, const Mac &rsrc, uint16_t seq) {
    Bytes f(HDR, 0);
    memcpy(&f[OFF_EDST], edst.a, 6); memcpy(&f[OFF_ESRC], esrc.a, 6);
    f[OFF_ETYPE] = 0x88; f[OFF_ETYPE + 1] = 0xD9; f[OFF_VER] = 1; f[OFF_TOS] = tos; f[OFF_RSVD] = 0; f[OFF_OP] = op;
    memcpy(&f[OFF_RDST], rdst.a, 6); memcpy(&f[OFF_RSRC], rsrc.a, 6); put16(&f[OFF_SEQ], seq);
    return f;
}
} // namespace wire

// ----------------------------------------------------------------- attributes of a simulated interface/host
enum GetterBit {
    G_MTU = 1 << 0, G_MAC = 1 << 1, G_IFTYPE = 1 << 2, G_IPV4 = 1 << 3, G_IPV6 = 1 << 4, G_SPEED = 1 << 5,
    G_HOSTNAME = 1 << 6, G_WIFIMODE = 1 << 7, G_BSSID = 1 << 8, G_SSID = 1 << 9, G_RATE = 1 << 10, G_RSSI = 1 << 11,
    G_ICON = 1 << 12, G_FNAME = 1 << 13, G_HWID = 1 << 14, G_PHY = 1 << 15, G_ALL = 0xFFFF
};
struct Attr {
    Mac mac;
    uint16_t flags = 0;
    uint32_t iftype = 6, ipv4 = 0, speed = 0, phy = 0;
    uint8_t ipv6[16] = {0};
    Bytes hostname;
    bool hostname_ret_full = false; // port variant: getter returns the full length instead of the copied length
    bool wifi = false;
    uint8_t wifimode = 0;
    uint8_t bssid[6] = {0};
    Bytes ssid;
    bool ssid_ret_full = false;
    uint16_t rate = 0;
    int8_t rssi = 0;
    Bytes icon, fname, hwid;
    bool icon_avail = true, fname_avail = true;
    uint32_t failmask = 0; // getters that fail persistently
};
Attr make_attr(uint64_t seed, bool wifi);
void attr_mutate(Attr &a, uint64_t seed, uint32_t fieldmask);

// ----------------------------------------------------------------- plan
enum OpKind {
    OP_DISCOVER = 0, OP_EMIT, OP_PROBE, OP_FLOOD, OP_QUERY, OP_QLT, OP_FETCH, OP_RESET, OP_CHARGE, OP_HELLO, OP_RAW,
    OP_STRAY, OP_TICK, OP_STALL, OP_ATTR, OP_PARTITION, OP_CTOR,
    // API walk ops
    OP_A_ADV = 40, OP_A_TICK, OP_A_MAP, OP_A_SESS, OP_A_ENUM, OP_A_TADD, OP_A_TFIND, OP_A_TREM, OP_A_TCLR, OP_A_TCOMPL,
    OP_A_HEARD, OP_A_DISCBOOK, OP_A_CHARGE, OP_A_INACT, OP_A_SETR, OP_A_BANDSET, OP_A_SETMAP, OP_A_SETSESS, OP_A_BLOCKEND, OP_A_REINIT,
    OP_KIND_MAX
};
const char *op_name(int k);
int op_kind_from_name(const std::string &s);

enum FaultKind {
    F_DROP = 0,   // a: node mask (0 = all)
    F_DUP,        // a: extra copies
    F_DELAY,      // a: extra ms
    F_TRUNC,      // a: new length
    F_PAD,        // a: new length, b: fill byte
    F_SETB,       // a: offset, b: value
    F_XORB,       // a: offset, b: xor
    F_COUNT,      // a: value written into the opcode's 16-bit counter field at offset 32 (emit) / 34 (discover) / 34 (qlt offset)
    F_ALLOCFAIL,  // a: k-th allocation during handling fails (1-based), b: how many consecutive (default 1)
    F_SENDFAIL,   // a: bit mask over send indices during handling (bit i = i-th send refused)
    F_GETFAIL,    // a: getter mask failing during handling
    F_TAILMAC,    // a: k (1..6): the last k bytes of the frame become the first k bytes of the receiving node's address (own address straddling the end of the frame); b: node
    F_KIND_MAX
};
const char *fault_name(int k);
int fault_kind_from_name(const std::string &s);
struct Fault { int kind; int64_t a = 0, b = 0; };
static inline bool fault_is_internal(int k) { return k == F_ALLOCFAIL || k == F_SENDFAIL || k == F_GETFAIL; }

struct Op {
    int kind = 0;
    uint32_t dt = 0; // ms since previous op
    int only = -1;   // deliver the frames of this op to this node only (-1: every node on the segment)
    int64_t a[8] = {0, 0, 0, 0, 0, 0, 0, 0};
    Bytes blob;
    std::vector<Fault> f;
};

struct NodeCfg {
    int glue = GLUE_BARE;
    uint32_t mtu = 1500;
    uint64_t attr_seed = 1;
    bool wifi = false;
    uint32_t failmask = 0;
    bool side_esp32 = false, side_classifier = false;
    uint8_t rxfill = 0;      // initial content of the receive buffer
    uint32_t proc_us = 0;    // per-frame processing cost (virtual microseconds)
    uint32_t tick_jitter = 0; // ms
    int ctx_alias = 0;        // k > 0: this interface's context pointer is the first interface's plus k * 2^32 (equal low 32 bits; the core never dereferences it)
    bool null_ctx = false;    // the daemon hands the core a NULL interface context for this interface (a single-interface port's habit; index 0 cast to a pointer)
};

struct Plan {
    std::string prop;       // property the plan was generated for
    int family = 0;         // generator family (informational)
    uint64_t seed = 0;
    uint64_t t0 = 5000;     // initial virtual clock (ms)
    uint64_t mac_seed = 1;  // station MAC universe
    uint8_t memfill = 0xA5; // fill of freshly allocated memory (0xFE = seeded noise)
    uint64_t memfill_seed = 0;
    uint32_t latency = 1;   // base one-way latency ms
    uint32_t tail_ms = 1500; // run-out after last op
    bool api_world = false;
    bool twin = false;      // C09/C18: mirror to a restarted twin after each topology Reset
    bool auto_tick = true;
    bool isolate = false;   // responder transmissions are not delivered to the other responders (separate segments)
    std::vector<NodeCfg> nodes;
    std::vector<Op> ops;
    // expectation for replays
    std::string expect_class;
    uint64_t expect_hash = 0;
    uint32_t call_us = 0;        // API walks: virtual time a logging call of the port takes (0 = none): the clock moves while the core runs, as on a real port
    std::string abi;             // build variant the plan was found under ("" = host default, "uchar" = plain char unsigned as on ARM/Xtensa); selects the build for a replay
};
std::string plan_to_text(const Plan &p);
bool plan_from_text(const std::string &s, Plan &p, std::string &err);
std::string op_to_text(const Op &o);

// ----------------------------------------------------------------- world
struct TxRec {
    int node;
    uint64_t t;       // virtual ms at transmit
    int channel;      // 0 = lltd_port_send_frame (core), 1 = periodic hello (darwin sendto)
    bool refused;     // transport refused (send fault): frame not on the wire
    bool in_tick;
    Bytes data;
};
struct PortCall { int kind; uint64_t t; int64_t arg; }; // kind: 0 sleep, 1 send (arg = index in txs), 2 malloc(arg=size), 3 free
struct LedgerRec { size_t size; uint64_t birth_delivery; int node; int tag; }; // tag: 0 core, 1 ctor, 2 icon(port), 3 fname(port)

struct Delivery {
    uint64_t id = 0;
    int node = -1;
    uint64_t t = 0;
    uint64_t t_end = 0;          // virtual time when the handling returned (t plus the pauses the core made while handling)
    int op_index = -1;
    size_t len = 0;              // length told by the "kernel" (after faults, <= MTU)
    const uint8_t *buf = nullptr; // effective buffer content handed to the core (mtu bytes)
    size_t mtu = 0;
    bool internal_fault = false;  // an alloc/send/getter fault was armed for this delivery
    bool alloc_fault_fired = false, send_fault_fired = false, get_fault_fired = false;
    std::vector<TxRec> txs;
    std::vector<PortCall> calls;
    glue_view before, after;
    int born_live = 0, born_live_icon = 0, born_live_fname = 0; // allocations made during this delivery and still live after it
    bool ran = false;             // the port's loop body handed the buffer to the core
    bool is_twin = false;
    bool from_responder = false;  // frame originated from another responder node
    int src_node = -1;
    uint64_t wire_id = 0;         // identity of the frame on the wire (for C10)
};
struct TickRec {
    int node; uint64_t t; glue_view before, after; std::vector<TxRec> txs;
};

struct World;
struct Monitor {
    virtual ~Monitor() {}
    virtual const char *prop() const = 0;
    virtual void on_start(World &) {}
    virtual void on_delivery(World &, Delivery &) {}
    virtual void on_tick(World &, TickRec &) {}
    virtual void on_api(World &, int /*opi*/, const Op &, const glue_view & /*before*/, const glue_view & /*after*/, int64_t /*ret*/) {}
    virtual void pre_api(World &, int /*opi*/, const Op &) {}
    virtual void on_station_rx(World &, const TxRec &) {}
    virtual void on_op(World &, int /*opi*/, const Op &) {}
    virtual void on_end(World &) {}
};

struct Violation { std::string prop, clause, detail; };

struct Frame { Bytes data; int src_station = -1; int src_node = -1; uint64_t wire_id = 0; };

struct Event;
struct Node {
    NodeCfg cfg;
    Attr attr;
    glue_node *glue = nullptr;
    uint8_t *rxbuf = nullptr;
    uint64_t busy_until = 0;
    uint64_t tick_gen = 0;
    bool hidden = false;     // twin: not attached to the LAN
    int twin = -1;           // index of current twin node
    bool twin_full = false;  // the twin runs the same (Darwin) flow and its periodic Hellos are compared too
    uint64_t last_periodic_ms = 0; // virtual time of this node's last periodic Hello (0 = none)
    int twin_of = -1;
    uint32_t dyn_failmask = 0;
    bool usable = true;
    // the context pointer the daemon hands to the core: the node itself, or - after the interface was re-created (hot-plug) - a fresh
    // address from the node's slot array; the core keeps one record per context pointer it has ever seen
    uint8_t ctxslot[8192];
    int ctx_gen = 0;
    void *alias_ctx = nullptr;
    void *ctx() { if (alias_ctx && ctx_gen == 0) return alias_ctx; return cfg.null_ctx && ctx_gen == 0 ? nullptr : (ctx_gen == 0 ? (void *)this : (void *)&ctxslot[ctx_gen - 1]); }
    bool owns_ctx(const void *p) const { return (p == nullptr && cfg.null_ctx) || (alias_ctx && p == alias_ctx) || p == (const void *)this || ((const uint8_t *)p >= ctxslot && (const uint8_t *)p < ctxslot + sizeof ctxslot); }
    // frames (and the tick) that arrived while the thread was busy: the socket buffer, ordered by arrival sequence number
    std::map<uint64_t, std::shared_ptr<Event>> pending;
    uint64_t wake_t = 0, wake_seq = 0; bool wake_set = false;
};

struct StationModel {
    Mac mac;
    std::vector<Mac> heard; // responders whose Hello this station has seen, arrival order
};

struct Stats {
    uint64_t deliveries = 0, ticks = 0, txs = 0, events = 0, sim_ms = 0, api_ops = 0;
    uint64_t fault_fired[F_KIND_MAX] = {0};
    uint64_t probes[PROBE_MAX] = {0};
    std::map<std::string, uint64_t> named; // named reach probes / coverage counters
    std::unordered_set<uint64_t> cells;    // property-specific coverage cells (namespace in the top byte)
};

struct Event {
    uint64_t t, seq;
    int type; // 0 deliver, 1 tick, 2 continuation
    int node;
    uint64_t gen;
    std::shared_ptr<Frame> frame;
    int op_index;
    std::function<void()> fn;
};
struct EventCmp { bool operator()(const Event &a, const Event &b) const { return a.t != b.t ? a.t > b.t : a.seq > b.seq; } };

struct World {
    Plan plan;
    Rng aux;                     // only for junk-fill bytes (seeded from plan.memfill_seed)
    uint64_t now = 0, seq = 0;
    std::vector<std::unique_ptr<Node>> nodes;
    std::vector<StationModel> stations;
    std::priority_queue<Event, std::vector<Event>, EventCmp> q;
    std::vector<Monitor *> monitors;
    std::vector<Violation> violations;
    Stats st;
    Hash64 log, abstract;
    bool verbose = false;
    std::vector<std::string> vlog;
    // current handling context (read by the port functions)
    Node *cur = nullptr;
    Delivery *curd = nullptr;
    TickRec *curt = nullptr;
    uint64_t handling_base = 0, sleep_accum = 0, cost_us = 0;
    int in_tick = 0;
    uint64_t alloc_index = 0, send_index = 0;
    int64_t allocfail_k = 0, allocfail_n = 0; uint64_t sendfail_mask = 0; uint32_t getfail_mask = 0;
    int ledger_tag = 0;
    std::unordered_map<void *, LedgerRec> ledger;
    uint64_t live_bytes = 0, live_count = 0, hw_bytes = 0, total_allocs = 0;
    std::vector<uint64_t> node_live_count, node_live_bytes, node_icon_bytes; // per node, constructor allocations excluded
    uint64_t delivery_counter = 0, wire_counter = 0;
    uint64_t partition_until[8] = {0}; // per node: silence from stations until t
    int cur_op = -1;
    bool stop = false;
    Hash64 txhash;                                   // all transmitted bytes, in order (C02 determinism clause)
    std::map<int, Hash64> node_txhash;               // per interface (C17)
    std::map<int, uint64_t> node_txcount;
    std::map<int, std::pair<uint64_t, uint64_t>> op_counts; // op index -> (max allocations, max sends) in one delivery (C18)
    std::map<int, std::vector<Bytes>> op_txs;        // op index -> frames transmitted while handling it (C18)
    std::map<int, uint32_t> op_getters;              // reserved

    explicit World(const Plan &p);
    ~World();
    void run();
    // helpers
    Mac station_mac(int sid) const;
    Mac synth_mac(int64_t id) const;
    uint64_t port_now_ms() const { return handling_base + sleep_accum; }
    void violate(const char *prop, const std::string &clause, const std::string &detail);
    void note(const std::string &name, uint64_t n = 1) { st.named[name] += n; }
    void cell(uint8_t ns, uint64_t v) { st.cells.insert(((uint64_t)ns << 56) | (v & 0x00FFFFFFFFFFFFFFull)); }
    void vl(const std::string &s) { if (verbose) vlog.push_back(s); }
    size_t live_for_node(int node, uint64_t *bytes = nullptr) const;
    // execution
    void exec_op(int i);
    void put_on_wire(const Bytes &f, int src_station, int src_node, const Op *op, int op_index, int only_node = -1);
    void handle_delivery(int node, const Frame &f, int op_index, const Op *op, size_t len_after_faults);
    void do_tick(int node);
    void schedule_tick(int node);
    void pump(uint64_t until);
    void after_reset_twin(int node);
    int make_node(const NodeCfg &c, bool hidden, const Attr *same_interface_as = nullptr);
    void destroy_node(int idx);
    void at(uint64_t t, std::function<void()> fn);
    void exec_api(int i, const Op &op);
};

// key universe for API walks
Mac api_key_mac(int k);
static inline uint16_t api_key_gen(int k) { return (uint16_t)((k % 3) * 0x101); }

// monitors / generators (props.cc, gen.cc)
std::vector<Monitor *> make_monitors(const std::string &prop, World &w);
Plan generate_plan(const std::string &prop, uint64_t seed, const std::string &tier);
Plan generate_plan_indexed(const std::string &prop, uint64_t verif_seed, uint64_t index, const std::string &tier);
struct PropInfo { const char *id; const char *level; const char *rule; };

std::string hex(const uint8_t *p, size_t n);
Bytes unhex(const std::string &s);
