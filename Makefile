# Build of the verification machinery.  Simulator objects are repo-independent and built once
# (setup_cmd); the core, the ESP32 glue and sim/glue.c are rebuilt from $(VERIF_REPO) on every check.
VERIF_REPO ?= /repo
FLAVOUR ?= asan
B := build
SIMDIR := $(B)/sim
KEY := $(shell printf '%s' '$(VERIF_REPO)' | md5sum | cut -c1-10)
RDIR := $(B)/repo-$(KEY)-$(FLAVOUR)

CXX := g++
CC := gcc
ifneq (,$(findstring asan,$(FLAVOUR)))
SAN := -fsanitize=address,undefined -fno-sanitize-recover=all -fno-omit-frame-pointer
OPT := -O1 -g
else
SAN :=
OPT := -O2 -g
endif
# asan-uchar: the repository code compiled the way ARM / AArch64 / Xtensa (ESP32) / PowerPC compilers do: plain char is unsigned
ifneq (,$(findstring uchar,$(FLAVOUR)))
ABI := -funsigned-char
else
ABI :=
endif
# the simulator itself is not instrumented (speed); the sanitizer runtime still intercepts its malloc/memcpy
CXXFLAGS := -std=c++17 -O2 -g -fno-omit-frame-pointer -Wall -Wextra -Wno-unused-parameter -Wno-array-compare -Isim
CFLAGS_CORE := -std=gnu11 $(OPT) $(SAN) $(ABI) -Wall -Wextra -Wno-unused-parameter -I$(VERIF_REPO)/lltdResponder
CLASSIFIER_LEN := $(shell grep -q 'size_t frame_len' $(VERIF_REPO)/lltdResponder/lltdAutomata.h || echo -DGLUE_CLASSIFIER_NO_LEN)
CFLAGS_GLUE := $(CFLAGS_CORE) -Isim -I$(VERIF_REPO) $(CLASSIFIER_LEN)

SIMOBJS := $(SIMDIR)/world.o $(SIMDIR)/props.o $(SIMDIR)/gen.o $(SIMDIR)/main.o
CORESRC := lltdBlock lltdAutomata lltdTlvOps lltdWire
COREOBJS := $(patsubst %,$(RDIR)/%.o,$(CORESRC))
REPOOBJS := $(COREOBJS) $(RDIR)/lltd_esp32.o $(RDIR)/glue.o

.PHONY: sim repo all clean
all: sim repo
sim: $(SIMOBJS)

$(SIMDIR)/%.o: sim/%.cc sim/sim.hh sim/simapi.h
	@mkdir -p $(SIMDIR)
	$(CXX) $(CXXFLAGS) -c $< -o $@

# repo-dependent part: always rebuilt (sources under $(VERIF_REPO) may have been edited)
repo: $(SIMOBJS)
	@mkdir -p $(RDIR)
	@rm -f $(RDIR)/*.o $(RDIR)/lltdsim
	@for f in $(CORESRC); do $(CC) $(CFLAGS_CORE) -c $(VERIF_REPO)/lltdResponder/$$f.c -o $(RDIR)/$$f.o 2>$(RDIR)/$$f.log & done; \
	 $(CC) $(CFLAGS_CORE) -c $(VERIF_REPO)/os/esp32/daemon/lltd_esp32.c -o $(RDIR)/lltd_esp32.o 2>$(RDIR)/lltd_esp32.log & \
	 $(CC) $(CFLAGS_GLUE) -I$(VERIF_REPO)/lltdResponder -c sim/glue.c -o $(RDIR)/glue.o 2>$(RDIR)/glue.log & wait
	@for f in $(CORESRC) lltd_esp32 glue; do test -f $(RDIR)/$$f.o || { cat $(RDIR)/$$f.log; echo "BUILD FAILED: $$f"; exit 1; }; done
	@for f in $(CORESRC); do objcopy --rename-section .bss=corebss --rename-section .data=coredata $(RDIR)/$$f.o; done
	@nm $(COREOBJS) | grep -E ' [bBdD] ' > $(RDIR)/core-writable-symbols.txt || true
	@ld -r -o $(RDIR)/core-rel.o $(COREOBJS) && nm -u $(RDIR)/core-rel.o > $(RDIR)/core-undefined-symbols.txt; rm -f $(RDIR)/core-rel.o
	$(CXX) $(SAN) -o $(RDIR)/lltdsim $(SIMOBJS) $(REPOOBJS)

clean:
	rm -rf $(B)

# ---------------------------------------------------------------- W2: real embedded daemon + Linux port over a simulated libc
# W2FLAV=tsancb : core compiled by clang with -fsanitize=thread instrumentation, linked against OUR callbacks
#                 (pre-emption at every memory access + happens-before race detector); daemon and port uninstrumented
# W2FLAV=asan   : core, daemon and port compiled by gcc with ASan+UBSan (pre-emption at libc calls only)
W2FLAV ?= tsancb
W2DIR := $(B)/w2-$(KEY)-$(W2FLAV)
DAEMONDEFS := -D LINUX -DLLTD_BACKEND_EMBEDDED -DLLTD_USE_CONSOLE
ifeq ($(W2FLAV),tsancb)
W2CC := clang
W2CORESAN := -fsanitize=thread
W2SAN :=
else
W2CC := gcc
W2CORESAN := -fsanitize=address,undefined -fno-sanitize-recover=all -fno-omit-frame-pointer
W2SAN := $(W2CORESAN)
endif
.PHONY: w2
w2:
	@mkdir -p $(W2DIR)
	@rm -f $(W2DIR)/*.o $(W2DIR)/w2sim
	@for f in $(CORESRC); do $(W2CC) -std=gnu11 -O1 -fno-inline -g $(W2CORESAN) -I$(VERIF_REPO)/lltdResponder -c $(VERIF_REPO)/lltdResponder/$$f.c -o $(W2DIR)/$$f.o 2>$(W2DIR)/$$f.log & done; \
	 $(W2CC) -std=gnu11 -O1 -g $(W2SAN) $(DAEMONDEFS) -Dmain=lltd_embedded_main -I$(VERIF_REPO)/os/linux -c $(VERIF_REPO)/os/linux/daemon/linux-embedded-main.c -o $(W2DIR)/daemon.o 2>$(W2DIR)/daemon.log & \
	 $(W2CC) -std=gnu11 -O1 -g $(W2SAN) $(DAEMONDEFS) -I$(VERIF_REPO)/os/linux -c $(VERIF_REPO)/os/linux/lltd_port.c -o $(W2DIR)/port.o 2>$(W2DIR)/port.log & \
	 $(W2CC) -std=gnu11 -O1 -g -I$(VERIF_REPO) -c w2/w2glue.c -o $(W2DIR)/w2glue.o 2>$(W2DIR)/w2glue.log & \
	 $(CXX) -std=c++17 -O2 -g -fno-omit-frame-pointer -Wall -Wextra -Wno-unused-parameter -Wno-array-compare -Isim -c w2/w2.cc -o $(W2DIR)/w2.o 2>$(W2DIR)/w2.log & wait
	@for f in $(CORESRC) daemon port w2glue w2; do test -f $(W2DIR)/$$f.o || { cat $(W2DIR)/$$f.log; echo "BUILD FAILED: $$f"; exit 1; }; done
	@for f in daemon port; do objcopy --redefine-syms=w2/redefine.txt $(W2DIR)/$$f.o; done
	@for f in $(CORESRC); do objcopy --rename-section .bss=corebss --rename-section .data=coredata $(W2DIR)/$$f.o; done
	$(CXX) -no-pie -pthread $(W2SAN) -o $(W2DIR)/w2sim $(W2DIR)/w2.o $(W2DIR)/w2glue.o $(W2DIR)/daemon.o $(W2DIR)/port.o $(patsubst %,$(W2DIR)/%.o,$(CORESRC))
