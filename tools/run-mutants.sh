#!/bin/bash
# tools/run-mutants.sh benign|killer [secs] [name-filter]
# Applies every patch of /verif/mutants/<kind>/ to a scratch worktree (outside /repo and /verif), checks that it compiles and that
# `make test` stays green, runs the listed checks against it (VERIF_REPO) and reports: benign -> every check must exit 0,
# killer -> at least one listed check must exit 1 with a VIOLATION line.  The worktree and its build output are removed after each patch.
cd "$(dirname "$0")/.."
KIND="${1:?benign|killer}"; SECS="${2:-10}"; FILTER="${3:-}"
bad=0
for patch in mutants/$KIND/*${FILTER}*.patch; do
  name=$(basename "$patch" .patch)
  checks=$(python3 -c "import json;print(' '.join(json.load(open('mutants/$KIND/$name.json'))['checks']))")
  wt=$(mktemp -d /tmp/mut.XXXXXX); rmdir "$wt"
  git -C /repo worktree add -q --detach "$wt" HEAD
  if ! git -C "$wt" apply "$PWD/$patch" 2>/dev/null; then echo "SKIP $name: patch does not apply"; git -C /repo worktree remove --force "$wt"; bad=1; continue; fi
  ( cd "$wt" && make test >/tmp/mut-test.$$ 2>&1 ); t=$(grep -c "PASSED" /tmp/mut-test.$$); rm -f /tmp/mut-test.$$
  res=""; hit=0; alarm=0
  for c in $checks; do
    out=$(VERIF_REPO="$wt" ./check "$c" --secs "$SECS" --replays "build/tmp/mut-replays" 2>&1); rc=$?
    cls=$(echo "$out" | grep -m1 '^violation class=' | sed 's/^violation class=//; s/ (run.*//; s/ (w2 run.*//' | cut -c1-110)
    res="$res $c=$rc"
    [ $rc -eq 1 ] && { hit=1; res="$res[$cls]"; }
    [ $rc -ne 0 ] && alarm=1
    [ $rc -eq 2 ] && res="$res[HARNESS $(echo "$out" | grep -m1 HARNESS | cut -c1-100)]"
  done
  git -C /repo worktree remove --force "$wt"
  rm -rf build/repo-$(printf '%s' "$wt" | md5sum | cut -c1-10)-asan build/w2-$(printf '%s' "$wt" | md5sum | cut -c1-10)-* build/tmp/mut-replays
  if [ "$KIND" = benign ]; then
    if [ $alarm -eq 0 ] && [ "$t" = 2 ]; then echo "OK    $name (test suites green: $t/2):$res"; else echo "ALARM $name (tests $t/2):$res"; bad=1; fi
  else
    if [ $hit -eq 1 ] && [ "$t" = 2 ]; then echo "KILLED $name (tests $t/2):$res"; else echo "SURVIVED $name (tests $t/2):$res"; bad=1; fi
  fi
done
exit $bad
