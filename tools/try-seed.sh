#!/bin/bash
# tools/try-seed.sh <seed-id> <worktree> <property> [secs]
# Confirms a seeded change (demo fails with it / passes without it, `make test` green), runs the owning
# check against the patched worktree, and files the change under /verif/seeded/<seed-id>/.
cd "$(dirname "$0")/.."
ID="$1"; WT="$2"; PROP="$3"; SECS="${4:-20}"
set -u
[ -f "$WT/seed_demo/patch.diff" ] || { echo "no patch.diff in $WT/seed_demo"; exit 2; }
( cd "$WT" && git checkout -q -- . && git apply seed_demo/patch.diff ) || { echo "patch does not apply to HEAD"; exit 2; }   # exactly the recorded change, nothing else
( cd "$WT" && make test >/tmp/seedtest.$$ 2>&1 ); mt=$?; grep -E "PASSED|FAILED" /tmp/seedtest.$$ | tr '\n' ' '; rm -f /tmp/seedtest.$$
( cd "$WT" && bash seed_demo/run.sh >/dev/null 2>&1 ); with=$?
( cd "$WT" && git apply -R seed_demo/patch.diff && bash seed_demo/run.sh >/dev/null 2>&1 ); without=$?
( cd "$WT" && git apply seed_demo/patch.diff )
echo "make test rc=$mt ; demo with change rc=$with (want !=0) ; without rc=$without (want 0)"
out=$(VERIF_REPO="$WT" ./check "$PROP" --secs "$SECS" --replays "build/tmp/seed-replays-$ID" 2>&1); rc=$?
echo "$out" | grep -E "^violation class=|^KNOWN|^$PROP:|HARNESS" | cut -c1-400
echo "check $PROP rc=$rc"
mkdir -p "seeded/$ID"
cp "$WT/seed_demo/patch.diff" "seeded/$ID/patch.diff"
mkdir -p "seeded/$ID/demo"; cp -r "$WT"/seed_demo/* "seeded/$ID/demo/" 2>/dev/null; rm -f "seeded/$ID/demo/patch.diff"
find "seeded/$ID/demo" -type f \( -name '*.o' -o -perm -u+x ! -name '*.sh' \) -size +100k -delete 2>/dev/null
for r in build/tmp/seed-replays-$ID/*/*.plan; do [ -f "$r" ] && cp "$r" "seeded/$ID/" ; done 2>/dev/null
rm -rf "build/tmp/seed-replays-$ID" build/repo-$(printf '%s' "$WT" | md5sum | cut -c1-10)-* build/w2-$(printf '%s' "$WT" | md5sum | cut -c1-10)-*
echo "{\"id\":\"$ID\",\"property\":\"$PROP\",\"make_test_rc\":$mt,\"demo_with_change_rc\":$with,\"demo_without_change_rc\":$without,\"check_cmd\":\"VERIF_REPO=<worktree with patch> ./check $PROP --secs $SECS\",\"check_rc\":$rc}" > "seeded/$ID/result.json"
# meta.json: written here from the run itself; `change` / `needs_to_manifest` are the seeding agent's own words (demo/NOTES.md)
python3 - "$ID" "$PROP" "$SECS" "$mt" "$with" "$without" "$rc" "$(echo "$out" | grep -m3 '^violation class=' | sed 's/^violation class=//; s/ (run.*//; s/ (w2 run.*//' | tr '\n' '|')" <<'PY'
import json, sys, os, re
ID, PROP, SECS, mt, w, wo, rc, cls = sys.argv[1:9]
d = f"seeded/{ID}"
notes = ""
for n in ("NOTES.md", "notes.md"):
    if os.path.exists(f"{d}/demo/{n}"): notes = open(f"{d}/demo/{n}", errors="replace").read()
first = " ".join(notes.split())[:900]
prev = {}
if os.path.exists(f"{d}/meta.json"):
    try: prev = json.load(open(f"{d}/meta.json"))
    except Exception: prev = {}
m = {"id": ID, "breaks_property": PROP,
     "origin": "independent sub-agent given only the property text and a scratch worktree of /repo HEAD",
     "change_and_trigger": prev.get("change_and_trigger") or ("see demo/NOTES.md: " + first),
     "confirmed": {"make_test": "15/15 green with the change" if mt == "0" else f"make test rc {mt}", "demo_with_change_exit": int(w), "demo_without_change_exit": int(wo)},
     "ran": f"tools/try-seed.sh {ID} <worktree> {PROP} {SECS}  (= VERIF_REPO=<worktree with patch> ./check {PROP} --secs {SECS})",
     "check_exit": int(rc), "detected_as": cls.strip("|"),
     "history": prev.get("history", [])}
if isinstance(m["history"], str): m["history"] = [m["history"]]
m["history"].append(f"run with check exit {rc}" + (f": {cls.strip('|')[:160]}" if cls else ""))
json.dump(m, open(f"{d}/meta.json", "w"), indent=1)
os.remove(f"{d}/result.json")
PY
