#!/usr/bin/env python3
"""Generates the hand-written mutant patches under /verif/mutants from textual edits against /repo HEAD.
benign/*.patch  : correct variants of the code (the property still holds) - every listed check must stay green
killer/*.patch  : small regressions that compile and keep `make test` green - the owning check must report a violation
Each patch has a sidecar .json {"checks": [...], "why": "..."}"""
import subprocess, os, json, tempfile, shutil, sys
V = os.path.dirname(os.path.dirname(os.path.abspath(__file__)))
B = "lltdResponder/lltdBlock.c"; A = "lltdResponder/lltdAutomata.c"; T = "lltdResponder/lltdTlvOps.c"
M = {
 "benign": {
  "emit-overdeclared-ignored": (["C06", "C02", "C01"], "an Emit declaring more descriptors than a frame can carry is ignored instead of clamped", [(B,
    "        numDescs = (int)maxDescs;\n", "        return;\n")]),
  "observation-cap-512": (["C07", "C19", "C10"], "observation record capped at 512 instead of 1024 (still above the 300 of C07's domain)", [(B,
    "#define LLTD_SEE_LIST_MAX 1024u", "#define LLTD_SEE_LIST_MAX 512u")]),
  "queryresp-one-less-per-frame": (["C07", "C02", "C10"], "QueryResp carries one descriptor less than fits, the rest announced with the more flag", [(B,
    "    if (max_descs > 0x3FFF) {\n", "    if (max_descs > 1) {\n        max_descs--;\n    }\n    if (max_descs > 0x3FFF) {\n")]),
  "query-from-stranger-does-not-seize": (["C05", "C06", "C07", "C03"], "a Query no longer overwrites the active mapper (stranger's command does not take the role over)", [(B,
    "    st->mapper_real = inHeader->realSource;\n    st->mapper_apparent = inHeader->frameHeader.source;\n    st->mapper_known = 1;\n",
    "    set_active_mapper(st, &inHeader->realSource, &inHeader->frameHeader.source);\n")]),
  "ack-to-real-address": (["C06", "C02"], "ACK is sent to the mapper's real address at Ethernet level too", [(B,
    "                        &st->mapper_apparent,\n                        &our_mac,\n                        &st->mapper_real,\n                        st->mapper_seq, opcode_ack",
    "                        &st->mapper_real,\n                        &our_mac,\n                        &st->mapper_real,\n                        st->mapper_seq, opcode_ack")]),
  "pause-split-in-two-sleeps": (["C06"], "the descriptor pause is slept in two halves", [(B,
    "    lltd_port_sleep_ms((uint32_t)pause_ms);\n", "    lltd_port_sleep_ms((uint32_t)pause_ms / 2);\n    lltd_port_sleep_ms((uint32_t)pause_ms - (uint32_t)pause_ms / 2);\n")]),
  "hello-tlv-order": (["C02", "C04", "C03"], "IPv6 and IPv4 properties swapped in the Hello (host id still first)", [(B,
    "    offset += setIPv4TLV(buffer, offset, iface_ctx);\n    offset += setIPv6TLV(buffer, offset, iface_ctx);\n",
    "    offset += setIPv6TLV(buffer, offset, iface_ctx);\n    offset += setIPv4TLV(buffer, offset, iface_ctx);\n")]),
  "empty-station-list-not-acking": (["C11", "C12", "C15"], "a Discover with an empty station list is classified as not acknowledging (left open by C11)", [(A,
    "            if (station_count == 0) {\n                acking = true;\n            } else {", "            if (station_count == 0) {\n                acking = false;\n            } else {")]),
  "nascent-changed-xid-moves-on": (["C15"], "Nascent + non-acknowledging Discover with changed transaction goes to Pending (ambiguous cell)", [(A,
    "    autom->transitions_no = 17;\n    autom->last_ts = lltd_monotonic_seconds();\n    autom->name = \"Session\";", "    autom->transitions_no = 18;\n    autom->last_ts = lltd_monotonic_seconds();\n    autom->name = \"Session\";"),
    (A, "    t[16].from = 3; t[16].to = 1; t[16].with = sess_reset;\n", "    t[16].from = 3; t[16].to = 1; t[16].with = sess_reset;\n    t[17].from = 1; t[17].to = 2; t[17].with = sess_discover_noack_chgd_xid;\n")]),
  "hello-interval-padded": (["C13", "C12"], "next Hello scheduled 10 ms later than the load formula requires", [(A,
    "    band->hello_timeout_ts = now + interval_ms;\n", "    band->hello_timeout_ts = now + interval_ms + 10;\n")]),
  "hello-min-interval-1500": (["C12", "C13"], "periodic Hello floor raised from 1000 to 1500 ms", [("lltdResponder/lltdAutomata.h",
    "#define HELLO_MIN_INTERVAL_MS 1000", "#define HELLO_MIN_INTERVAL_MS 1500")]),
  "icon-not-cached": (["C08", "C09", "C19", "C18"], "the icon is fetched for every request and released afterwards (no per-session cache)", [(B,
    "            if (!st->small_icon && st->small_icon_size == 0) {\n                if (lltd_port_get_icon_image(&st->small_icon, &st->small_icon_size) != 0) {\n                    st->small_icon = NULL;\n                    st->small_icon_size = 0;\n                }\n            }\n            data = st->small_icon;\n            dataSize = st->small_icon_size;\n            break;",
    "            if (lltd_port_get_icon_image(&data, &dataSize) == 0) {\n                should_free = true;\n            } else {\n                data = NULL;\n                dataSize = 0;\n            }\n            break;")]),
  "session-expiry-61s": (["C16"], None, []),
 },
 "killer": {
  "no-hello-rate-limit": (["C12"], "the 1 s suppression against last_hello_tx_ms is dropped", [(A,
    "                if (last_tx > 0 && now_ms - last_tx < HELLO_MIN_INTERVAL_MS) {", "                if (0 && last_tx > 0 && now_ms - last_tx < HELLO_MIN_INTERVAL_MS) {")]),
  "tick-ignores-all-complete": (["C12"], "the all-complete gate of the tick is dropped: Hellos continue although every session is complete (dropping only the table-empty gate is an equivalent mutant: the all-complete branch catches the empty table)", [(A,
    "            } else if (all_complete) {\n                switch_state_enumeration(enumeration, enum_sess_complete, \"tick\");", "            } else if (0 && all_complete) {\n                switch_state_enumeration(enumeration, enum_sess_complete, \"tick\");")]),
  "expiry-ge-60": (["C16"], "session expiry uses >= 60 s instead of > 60 s", [(A,
    "                if (now_s > entry->last_activity_ts + 60) {", "                if (now_s >= entry->last_activity_ts + 60) {")]),
  "remove-forgets-count": (["C16"], "session_table_remove forgets to decrement count", [(A,
    "            entry->valid = false;\n            if (table->count > 0) {\n                table->count--;\n            }\n            break;", "            entry->valid = false;\n            break;")]),
  "ack-seq-zero": (["C06"], "ACK carries sequence number 0", [(B,
    "                        st->mapper_seq, opcode_ack, tos_discovery);", "                        0, opcode_ack, tos_discovery);")]),
  "probe-train-swapped": (["C06"], "Probe/Train mapping swapped", [(B,
    "    uint8_t code = (type == 0x01) ? opcode_probe : opcode_train;", "    uint8_t code = (type == 0x01) ? opcode_train : opcode_probe;")]),
  "reset-keeps-observations": (["C09", "C07"], "topology Reset no longer clears the observation record", [(B,
    "                case opcode_reset:\n                    lltd_state_clear_seen_probes(st);\n", "                case opcode_reset:\n")]),
  "reset-keeps-icon": (["C09"], "topology Reset keeps the cached icon", [(B,
    "                    lltd_state_clear_icon_cache(st);\n                    st->mapper_known = 0;", "                    st->mapper_known = 0;")]),
  "link-speed-little-endian": (["C04"], "link speed written without byte swap", [(T,
    "    uint32_t wire = lltd_htonl(speed_100bps);", "    uint32_t wire = speed_100bps;")]),
  "hostname-unclamped": (["C04", "C02", "C01"], "hostname length not clamped to 32", [(T,
    "    size_t written = lltd_port_get_hostname(base + offset + sizeof(*hostnameTLV), 32);\n    if (written > 32) {\n        written = 32;\n    }", "    size_t written = lltd_port_get_hostname(base + offset + sizeof(*hostnameTLV), 32);")]),
  "largetlv-more-off-by-one": (["C08"], "'more' decided with >= instead of >", [(B,
    "    } else if (dataSize > dataOffset + maxPayload) {", "    } else if (dataSize >= dataOffset + maxPayload) {")]),
  "send-failure-leaks": (["C18", "C19"], "buffer not released when the Probe transmit is refused", [(B,
    "        log_warning(\"sendProbeMsg: send_frame failed (%zu bytes, opcode=%u)\", packageSize, code);\n        lltd_port_free(probe);\n", "        log_warning(\"sendProbeMsg: send_frame failed (%zu bytes, opcode=%u)\", packageSize, code);\n")]),
  "dedupe-on-ethernet-source-only": (["C07", "C10"], "observation duplicates keyed on the Ethernet source only", [(B,
    "        if (compareEthernetAddress(&probe->sourceAddr, &cur->sourceAddr) &&\n            compareEthernetAddress(&probe->realSourceAddr, &cur->realSourceAddr)) {", "        if (compareEthernetAddress(&probe->sourceAddr, &cur->sourceAddr)) {")]),
  "answer-tos2-discover": (["C05", "C02"], "Discovers of ToS 2 are answered", [(B,
    "        case tos_qos_diagnostics:\n        default:\n            break;", "        case tos_qos_diagnostics:\n            if (header->opcode == opcode_discover) {\n                answerHello(frame, st, iface_ctx);\n            }\n            break;\n        default:\n            break;")]),
  "hello-stale-generation-slot": (["C03"], "answerHello keeps the first generation it stored (pre-step update removed)", [(B,
    "        if (*slot == 0 && generation_host != 0) {\n            *slot = generation_host;\n        } else if (*slot != generation_host) {\n            *slot = generation_host;\n        }", "        if (*slot == 0 && generation_host != 0) {\n            *slot = generation_host;\n        }")]),
  "static-frame-counter": (["C17"], "a process-global statistics counter bumped on every frame (new unsynchronised shared state; harmless sequentially)", [(B,
    "static lltd_iface_state *g_iface_states = NULL;\n", "static lltd_iface_state *g_iface_states = NULL;\nstatic unsigned long g_frames_seen = 0;\n"),
    (B, "    lltd_demultiplex_header_t *header = (lltd_demultiplex_header_t *)frame;\n    lltd_iface_state *st = lltd_state_for_iface(iface_ctx);", "    lltd_demultiplex_header_t *header = (lltd_demultiplex_header_t *)frame;\n    g_frames_seen++;\n    lltd_iface_state *st = lltd_state_for_iface(iface_ctx);")]),
  "shared-scratch-mac": (["C17"], "sendProbeMsg builds its frame in a static buffer shared by all interfaces", [(B,
    "    lltd_demultiplex_header_t *probe = (lltd_demultiplex_header_t *)lltd_port_malloc(packageSize);\n    if (!probe) {\n        log_crit(\"sendProbeMsg: malloc failed\");\n        return false;\n    }",
    "    static lltd_demultiplex_header_t probe_storage;\n    lltd_demultiplex_header_t *probe = &probe_storage;"),
    (B, "        log_warning(\"sendProbeMsg: send_frame failed (%zu bytes, opcode=%u)\", packageSize, code);\n        lltd_port_free(probe);\n        return false;", "        log_warning(\"sendProbeMsg: send_frame failed (%zu bytes, opcode=%u)\", packageSize, code);\n        return false;"),
    (B, "    lltd_port_free(probe);\n    return true;\n}", "    return true;\n}")]),
 },
}
wt = tempfile.mkdtemp(prefix="mutgen.", dir="/tmp"); os.rmdir(wt)
subprocess.run(["git", "-C", "/repo", "worktree", "add", "-q", "--detach", wt, "HEAD"], check=True)
try:
    for kind, d in M.items():
        for name, (checks, why, edits) in d.items():
            if not edits: continue
            subprocess.run(["git", "-C", wt, "checkout", "-q", "--", "."], check=True)
            for f, old, new in edits:
                p = os.path.join(wt, f); s = open(p).read()
                if old not in s: print("!! edit does not apply:", kind, name, f); sys.exit(1)
                open(p, "w").write(s.replace(old, new, 1))
            diff = subprocess.run(["git", "-C", wt, "diff"], capture_output=True, text=True).stdout
            open(os.path.join(V, "mutants", kind, name + ".patch"), "w").write(diff)
            json.dump({"checks": checks, "why": why}, open(os.path.join(V, "mutants", kind, name + ".json"), "w"), indent=1)
            print(kind, name, len(diff.splitlines()), "lines")
finally:
    subprocess.run(["git", "-C", "/repo", "worktree", "remove", "--force", wt])
