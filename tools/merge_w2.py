#!/usr/bin/env python3
"""merge_w2.py <evidence.json> <w2-fragment.json>: folds the W2 (real daemon over simulated libc) half into the evidence file."""
import json, sys
ev = json.load(open(sys.argv[1])); fr = json.load(open(sys.argv[2]))
c = ev["coverage"]
c["w2_real_daemon_over_simulated_libc"] = fr
c["evaluations"] = c.get("evaluations", 0) + fr.get("evaluations", 0)
c["known_findings_hit"] = c.get("known_findings_hit", 0) + fr.get("known_findings_hit", 0)
c.setdefault("violations", []).extend(fr.get("violation_list", []))
c["real_components"] = c.get("real_components", "") + "; W2 half: " + fr.get("real_components", "")
c["stub_components"] = c.get("stub_components", "") + "; W2 half: " + fr.get("stub_components", "")
ev["violations"] = ev.get("violations", 0) + fr.get("violations", 0)
ev["wall_s"] = ev.get("wall_s", 0) + fr.get("wall_s", 0)
json.dump(ev, open(sys.argv[1], "w"), indent=1)
