#!/bin/bash
# tools/reseed-all.sh [secs] [filter]  -- regression of the kill matrix: every seeded change under /verif/seeded/ is applied to a
# scratch worktree of /repo HEAD and the owning check must report a violation.  Writes seeded/REGRESSION.txt.
cd "$(dirname "$0")/.."
SECS="${1:-20}"; FILTER="${2:-}"
out=seeded/REGRESSION.txt.new; : > $out
miss=0; n=0
for d in seeded/*${FILTER}*/; do
  id=$(basename "$d"); [ -f "$d/patch.diff" ] || continue
  prop=$(python3 -c "import json;print(json.load(open('$d/meta.json'))['breaks_property'])")
  wt=$(mktemp -d /tmp/reseed.XXXXXX); rmdir "$wt"
  git -C /repo worktree add -q --detach "$wt" HEAD
  if ! git -C "$wt" apply "$PWD/$d/patch.diff" 2>/dev/null; then echo "$id $prop PATCH-DOES-NOT-APPLY" | tee -a $out; git -C /repo worktree remove --force "$wt"; continue; fi
  res=$(VERIF_REPO="$wt" ./check "$prop" --secs "$SECS" --replays build/tmp/reseed-replays 2>&1); rc=$?
  cls=$(echo "$res" | grep -m1 '^violation class=' | sed 's/^violation class=//; s/ (run.*//; s/ (w2 run.*//' | cut -c1-120)
  n=$((n+1)); [ $rc -eq 1 ] || miss=$((miss+1))
  echo "$id $prop rc=$rc $cls" | tee -a $out
  git -C /repo worktree remove --force "$wt"
  rm -rf build/repo-$(printf '%s' "$wt" | md5sum | cut -c1-10)-* build/w2-$(printf '%s' "$wt" | md5sum | cut -c1-10)-* build/tmp/reseed-replays build/tmp/evidence-$(printf '%s' "$wt" | md5sum | cut -c1-10)
done
echo "# $n seeded changes re-run at ${SECS}s per check: $((n-miss)) detected, $miss missed ($(date -u +%F))" | tee -a $out
mv $out seeded/REGRESSION.txt
