#!/bin/bash
# For every "fix:" commit of /repo: the owning check must report a violation on the parent commit
# (scratch worktree outside /repo and /verif, removed afterwards) and hold on the commit itself.
# usage: tools/validate-fixes.sh [secs-per-check]
cd "$(dirname "$0")/.."
SECS="${1:-8}"
declare -A PROP=( [ce00669]=C01 [7559c88]="C01 C06" [ace7ed3]=C11 [c2d49ca]=C01 [4bb5c0e]="C05 C03" [058d531]=C13 [2b702e5]=C15 [5840cb6]=C07 [d0721d2]=C10 [3b6fb5f]=C18 [bb5c943]=C19 [f5f0c50]=C18 )
fail=0
for c in $(git -C /repo log --format=%h --grep='^fix:' --reverse); do
  props="${PROP[$c]:-}"; [ -z "$props" ] && { echo "?? $c has no property mapping"; continue; }
  wt=$(mktemp -d /tmp/vfix.XXXXXX); rmdir "$wt"
  git -C /repo worktree add -q --detach "$wt" "$c^" || { fail=1; continue; }
  for p in $props; do
    out=$(VERIF_REPO="$wt" ./check "$p" --secs "$SECS" --replays "build/tmp/vfix-replays" 2>&1); rc=$?
    cls=$(echo "$out" | grep -m3 '^violation class=' | sed 's/ (run.*//' | tr '\n' '|')
    if [ $rc -eq 1 ]; then echo "OK   $c^ $p: violation reported  $cls"; else echo "MISS $c^ $p: exit $rc"; echo "$out" | tail -3; fail=1; fi
  done
  git -C /repo worktree remove --force "$wt"
  rm -rf "build/repo-$(printf '%s' "$wt" | md5sum | cut -c1-10)-asan" build/tmp/vfix-replays
done
exit $fail
