#!/usr/bin/env python3
"""Regenerates /verif/MANIFEST.json from the table below (single source for ids, levels, notes)."""
import json, os
V = os.path.dirname(os.path.dirname(os.path.abspath(__file__)))
W1 = "seeded deterministic simulation (W1): real core behind the lltdPort.h seam on a simulated LAN, "
checks = {
 "C01": ("exploration", W1 + "corrupting network (truncation, padding, counter rewrites, noise, stale tails) under ASan+UBSan; all three receive entry points", "5.C01",
         "Sanitizer reports and abnormal exits of the real core / classifier / ESP32 entry point on MTU-sized heap buffers are the oracle; second half (W2): the real linux-embedded daemon's own malloc(MTU)+recvfrom path over a simulated libc. Sampling over seeds, not exhaustive. Trusted: gcc ASan/UBSan, the ledger allocator."),
 "C02": ("exploration", W1 + "independent byte-level decoder + solicitation ledger on every transmit, fill-pattern differential for the determinism clause", "5.C02",
         "Every frame passing lltd_port_send_frame / the periodic-Hello channel is decoded from wire offsets; each plan is run twice with different fresh-memory and stack fill. Uninitialised-stack dependence is only probabilistically exposed."),
 "C03": ("exploration", W1 + "set-valued mapper-arbitration reference model decides which Discovers are accepted; field-exact Hello oracle", "5.C03", "Acceptance is taken from the C05 reference model; bridged/direct mappers, both services, generation 0/0xFFFF are generated with bias."),
 "C04": ("exploration", W1 + "attribute swarms with byte-boundary bias, getter faults, mid-session attribute changes; every Hello decoded against the attribute record", "5.C04",
         "Core half in W1 (TLV writers + answerHello + transcribed periodic Hello); Linux platform half in W2: the real fillInterfaceDetails + os/linux/lltd_port.c feed the real core from a simulated NIC (address, MTU, loopback flag, IPv4/IPv6 via getifaddrs, host name, injected ifType/LinkSpeed/MediumType). Sampling of the attribute space, not the exhaustive sweep."),
 "C05": ("exploration", W1 + "stratified sweep over all 2 x 256 x 256 (state, ToS, opcode) single steps plus seeded multi-station histories against a set-valued arbitration model", "5.C05",
         "The sweep visits every (state, ToS, opcode) triple (coverage_cells in the evidence); histories are sampled."),
 "C06": ("exploration", W1 + "ordered (sleep, send) port-call trace per Emit against the descriptor list; over-declared counts bounded", "5.C06", "Emit from the model's certain active mapper; pauses checked as lower bounds on virtual send time."),
 "C07": ("exploration", W1 + "observation-multiset reference model across Query rounds (more flag followed), floods around the per-frame capacity", "5.C07", "Conservation demanded for k <= 300 pending observations; above that only none-invented / none-twice."),
 "C08": ("exploration", W1 + "mapper fetch loops with byte-exact reassembly, per-response relation, icon cache across Reset and platform changes", "5.C08", "Per-call relation sampled with boundary bias (not the exhaustive (size, offset) enumeration)."),
 "C09": ("exploration", W1 + "differential against a freshly started twin context after every topology Reset, byte-for-byte trace comparison", "5.C09", "Twin shares configuration and clock; internal faults only before the Reset. Darwin flow runs a full-flow twin whose periodic Hellos are compared too; the generation field the Darwin flow keeps across a Reset is a recorded known finding (KNOWN_FINDINGS.txt), any other difference fails the check."),
 "C10": ("exploration", W1 + "two real responder instances on one segment: frames emitted by A are delivered to B and must appear in B's QueryResp", "5.C10", "A->B link lossless by construction; other traffic interleaved."),
 "C11": ("exploration", W1 + "real derive_session_event (no LLTD_TESTING) in the Darwin flow; expected event recomputed from raw bytes and the session table", "5.C11", "Station lists 0..240 with own address first/middle/last/absent; table contents from the run's history."),
 "C12": ("exploration", W1 + "discrete-event time over the Darwin flow (100 ms ticks, stalls, partitions, 120 s jumps) and API-level interleavings; 4-clause invariant on every periodic Hello", "5.C12", "Darwin loop body is a transcription (os/darwin does not compile here); tick and RepeatBand code are real."),
 "C13": ("exploration", W1 + "block-end oracle in 128-bit arithmetic on injected r (boundary-dense up to 2^32-1) and on real Hello storms; monotonicity on paired blocks", "5.C13", "The exhaustive 2^32 sweep of the quantifier is enumeration and is not performed; r beyond what a storm can deliver is state-injected (counted separately)."),
 "C14": ("exploration", W1 + "stratified single-step cells (state x input -128..255 x elapsed class) + seeded walks + tick-driven inactivity, against a transition model with timeout sets", "5.C14", "Whole-second virtual clock for sharp boundaries; passive check in every Darwin/legacy run."),
 "C15": ("exploration", W1 + "all 4 x 8 x 5 (state, event, elapsed) cells + seeded walks against the life-cycle table with open cells as sets", "5.C15", "Events outside 0..7 are unspecified and not generated by the API driver."),
 "C16": ("exploration", W1 + "model-based operation sequences (<= 200 ops, 20-40 keys, 0..200 s advances) against a dictionary model, step by step", "5.C16", "Passive invariants also in every Darwin run."),
 "C17": ("exploration", W1 + "sequential half: seeded interleavings of two interfaces' histories vs each history alone (trace equality)", "5.C17",
         "Sequential half in W1. Threaded half in W2: the real embedded daemon with 2-3 simulated NICs, one lltdLoop thread each, scheduler pre-empting at libc calls and at every instrumented memory access of the core (clang -fsanitize=thread instrumentation, own callbacks), vector-clock happens-before detector with create/join edges only, per-NIC trace vs solo trace. The unsynchronised per-interface state list is a recorded known finding (KNOWN_FINDINGS.txt); any other race or unexplained cross-talk fails the check."),
 "C18": ("fault_enumeration", W1 + "systematic enumeration: every k-th allocation / send index / getter subset of every request of a fixed scenario corpus, post-Reset twin equality, constructors under allocation failure", "5.C18",
         "W1 enumerates fault points of 7 scenarios (quick; 15 thorough; two-interface scenarios included) + 24 constructor fault points; W2 half compares the allocations left after one and after three passes of the faulted history and injects libc-level faults into the real daemon and Linux port (k-th malloc of the run, sendto refusal / short write, SIOCGIFMTU failure, getifaddrs failure, socket failure for one NIC, recvfrom EINTR / 0) by seeded search."),
 "C19": ("exploration", W1 + "allocation ledger checked after every frame over long floods (quick 2*10^4, thorough 10^5 frames)", "5.C19", "Bound operationalised as 64 KiB + cached icon per interface. W2 half (real Linux daemon and port): the allocations alive after the closing Resets must be the same after one and after three passes of the same history; every getifaddrs list must be released."),
}
m = {
 "version": 1,
 "setup_cmd": "make -s -j16 sim",
 "hooks": {"guard": "LLTD_VERIF", "enable": "no hook exists in /repo: every seam is the existing lltdPort.h port API (or libc via -Wl,--wrap); checks compile /repo's working tree as it is",
           "baseline_off_cmd": "make -C /repo test", "source_commits": [], "add_only": True},
 "engines": [{"name": "lltdsim", "path": "sim/", "serves_properties": sorted(checks), "kind_free_text": "deterministic discrete-event simulator with fault injection (own seeded scheduler, virtual clock, ledger allocator, transport); real core compiled with ASan+UBSan"}],
 "checks": [],
 "not_applicable": [{"property_id": "C20", "reason": "static link/lint property over compilers and translation units: no schedule, clock, fault, interleaving or history for a simulator to explore (DESIGN 5.C20)"}],
 "notes": "All checks: ./check <id> --tier quick|thorough; replays: ./check --replay <file>. VERIF_SEED and VERIF_TIER honoured. Exit 0 held / 1 VIOLATION / 2 harness fault.",
}
for pid in sorted(checks):
    lvl, tech, ref, note = checks[pid]
    m["checks"].append({
        "property_id": pid,
        "quick_cmd": f"./check {pid} --tier quick",
        "thorough_cmd": f"./check {pid} --tier thorough",
        "evidence_file": f"evidence/{pid}.json",
        "replay_cmd_template": "./check --replay {path}",
        "engine": "lltdsim",
        "level_claimed": {"category": lvl, "text": ("fault enumeration: " if lvl == "fault_enumeration" else "seeded exploration: ") + tech, "design_ref": ref},
        "level_note": note,
        "technique": "deterministic simulation with fault injection: " + tech.replace(W1, "W1 simulated LAN around the real core; ") + (" + W2: real Linux embedded daemon and port over a simulated libc with an owned thread scheduler" if pid in ("C01", "C04", "C17", "C18", "C19") else "") + (" + second pass against the repository code built with -funsigned-char (plain char unsigned as on ARM/Xtensa)" if True else "") + (" + valgrind memcheck cross-check of the un-sanitized build (fresh memory undefined, transmitted bytes checked for definedness)" if pid in ("C01", "C02") else ""),
    })
json.dump(m, open(os.path.join(V, "MANIFEST.json"), "w"), indent=1)
print("wrote MANIFEST.json with", len(m["checks"]), "checks")
