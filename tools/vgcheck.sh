#!/bin/bash
# tools/vgcheck.sh <C01|C02> <plans-per-process> <tmpdir> <replay-dir>
# Cross-check under valgrind memcheck on the un-sanitized (plain) build: freshly allocated memory is marked undefined, every
# transmitted frame is checked with VALGRIND_CHECK_MEM_IS_DEFINED (C02: no byte on the wire that was never written - heap AND
# stack), and any memcheck error (invalid read/write, jump on uninitialised value in the core) counts for C01.
# Prints `violation`/`VIOLATION` lines like the main driver; exit 0 / 1 / 2.
cd "$(dirname "$0")/.."
PROP="$1"; N="${2:-12}"; TMP="${3:-build/tmp}"; RDIRR="${4:-replays}"
VERIF_REPO="${VERIF_REPO:-/repo}"
KEY=$(printf '%s' "$VERIF_REPO" | md5sum | cut -c1-10)
( flock 9; make -s repo FLAVOUR=plain VERIF_REPO="$VERIF_REPO" >"$TMP/make-plain.log" 2>&1 || { cat "$TMP/make-plain.log"; exit 3; } ) 9>build/.lock || exit 2
BIN="build/repo-$KEY-plain/lltdsim"
P=16
SEED="${VERIF_SEED:-20261003}"
for w in $(seq 0 $((P-1))); do
  valgrind -q --error-exitcode=88 --errors-for-leak-kinds=none --leak-check=no --undef-value-errors=yes \
    "$BIN" vgrun "$PROP" --seed "$SEED" --runs $((N*P)) --start $w --stride $P --tmp "$TMP" >"$TMP/vg.$w.out" 2>"$TMP/vg.$w.err" &
done
wait
runs=$(cat "$TMP"/vg.*.out | grep -c '^VG-RUN')
echo "valgrind cross-check $PROP: $runs plans under memcheck (plain build, fresh memory undefined)"
rc=0
# (a) definedness of transmitted bytes / monitor violations seen under valgrind
viol=$(cat "$TMP"/vg.*.out | grep '^VG-VIOLATION' | grep -E "	|$PROP:" | sort -k2,2n | head -1)
# (b) memcheck errors inside the repository's code
errs=$(cat "$TMP"/vg.*.err | grep -E "^==[0-9]+== (Invalid|Conditional|Use of uninit|Syscall param)" | head -1)
if [ -n "$viol" ] && echo "$viol" | grep -q "$PROP:"; then
  idx=$(echo "$viol" | awk '{print $2}'); cls=$(echo "$viol" | cut -f1 | awk '{print $3}')
  mkdir -p "$RDIRR/$PROP"; f="$RDIRR/$PROP/vg-$idx.plan"
  "$BIN" genplan "$PROP" --seed "$SEED" --runs "$idx" > "$f.tmp"; { echo "# $cls (seen under valgrind memcheck, plain build) :: $(echo "$viol" | cut -f2)"; sed "s|^expect_class .*|expect_class valgrind:$cls|" "$f.tmp"; } > "$f"; rm -f "$f.tmp"
  if valgrind -q --undef-value-errors=yes "$BIN" vgreplay "$f" --tmp "$TMP" 2>/dev/null | grep -q "$cls"; then
    echo "violation class=$cls :: $(echo "$viol" | cut -f2) (valgrind, run $idx)"; echo "VIOLATION property=$PROP replay=$f"; rc=1
  else echo "HARNESS: valgrind violation at index $idx did not reproduce"; rc=2; fi
elif [ "$PROP" = C01 ] && [ -n "$errs" ]; then
  w=$(grep -lE "^==[0-9]+== (Invalid|Conditional|Use of uninit)" "$TMP"/vg.*.err | head -1); idx=$(grep '^VG-RUN' "${w%.err}.out" | tail -1 | awk '{print $2}'); idx=$((idx + P))
  echo "violation class=C01:valgrind-error :: $(echo "$errs" | sed 's/^==[0-9]*== //') (near run $idx; see $w)"; cp "$w" "$RDIRR/$PROP-valgrind.log" 2>/dev/null
  mkdir -p "$RDIRR/$PROP"; f="$RDIRR/$PROP/vg-$idx.plan"; "$BIN" genplan "$PROP" --seed "$SEED" --runs "$idx" | sed "s|^expect_class .*|expect_class valgrind:C01:valgrind-error|" > "$f"
  echo "VIOLATION property=$PROP replay=$f"; rc=1
fi
echo "{\"plans_under_memcheck\": $runs, \"violations\": $([ $rc -eq 1 ] && echo 1 || echo 0)}" > "$TMP/vg.json"
rm -f "$TMP"/vg.*.out "$TMP"/vg.*.err
exit $rc
