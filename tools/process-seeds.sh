#!/bin/bash
# tools/process-seeds.sh <worktree-prefix> <id-suffix> [secs]   e.g. tools/process-seeds.sh /tmp/seed4- d 20
# Runs tools/try-seed.sh for every worktree <prefix>Cnn that holds seed_demo/patch.diff and prints one line per seed.
cd "$(dirname "$0")/.."
PFX="$1"; SUF="$2"; SECS="${3:-20}"
for wt in ${PFX}C??; do
  [ -f "$wt/seed_demo/patch.diff" ] || continue
  p="${wt#$PFX}"
  out=$(tools/try-seed.sh "$p-$SUF" "$wt" "$p" "$SECS" 2>&1)
  demo=$(echo "$out" | grep -o "demo with change rc=[0-9]* (want !=0) ; without rc=[0-9]*")
  rc=$(echo "$out" | grep -o "check $p rc=[0-9]*")
  cls=$(echo "$out" | grep -m1 '^violation class=' | cut -c17-120)
  echo "$p-$SUF | $demo | $rc | $cls"
done
