#!/bin/bash
# tools/selftest-determinism.sh [runs-per-property]
# Same plan => same event-log hash, whatever process executes it: every property's first N indices are executed
#   (a) by 16 in-process workers, (b) by 3 workers, (c) by 1 worker, and (d) one forked child per index,
# and the per-index hashes must agree pairwise.
cd "$(dirname "$0")/.."
N="${1:-400}"
make -s -j16 sim >/dev/null 2>&1; make -s repo >/dev/null 2>&1
BIN=$(ls -d build/repo-$(printf '%s' "${VERIF_REPO:-/repo}" | md5sum | cut -c1-10)-asan)/lltdsim
make -s repo FLAVOUR=plain >/dev/null 2>&1
PLAIN=build/repo-$(printf '%s' "${VERIF_REPO:-/repo}" | md5sum | cut -c1-10)-plain/lltdsim
T=build/tmp/determ.$$; mkdir -p $T
fail=0
for p in C01 C02 C03 C04 C05 C06 C07 C08 C09 C10 C11 C12 C13 C14 C15 C16 C17 C19; do
  for w in 16 3 1; do
    VERIF_DUMP_HASHES=$T/$p.w$w $BIN check $p --runs $N --secs 600 --workers $w --tmp $T --no-minimise >/dev/null 2>&1
    cat $T/$p.w$w.* | sort -n > $T/$p.w$w.all; rm -f $T/$p.w$w.[0-9]*
  done
  $BIN hashes $p --runs $((N/4)) --tmp $T 2>/dev/null | awk '{print $1, $2}' | sort -n > $T/$p.iso
  # (e) the un-sanitized build must produce the same logs as the ASan+UBSan build (no address, padding or timing enters the log)
  if [ -x "$PLAIN" ]; then $PLAIN hashes $p --runs $((N/4)) --tmp $T 2>/dev/null | awk '{print $1, $2}' | sort -n > $T/$p.plain; cmp -s $T/$p.iso $T/$p.plain || { echo "DIFF $p: plain and sanitized builds disagree"; fail=1; }; fi
  a=$(md5sum < $T/$p.w16.all); b=$(md5sum < $T/$p.w3.all); c=$(md5sum < $T/$p.w1.all)
  iso_bad=$(join $T/$p.iso $T/$p.w1.all | awk '$2 != $3' | wc -l)
  n=$(wc -l < $T/$p.w1.all)
  if [ "$a" = "$b" ] && [ "$b" = "$c" ] && [ "$iso_bad" = 0 ] && [ "$n" -ge "$N" ]; then echo "OK   $p: $n indices identical at 16/3/1 workers; $(wc -l < $T/$p.iso) isolated children agree, plain build agrees"; else echo "DIFF $p: w16=$a w3=$b w1=$c isolated-mismatches=$iso_bad n=$n"; fail=1; fi
done
rm -rf $T
exit $fail
