/* w2glue.c -- compiled against the repository headers: lets the W2 simulator touch the daemon's
 * interface record without knowing its layout (link renegotiation event for the C04 Linux half). */
#include <stddef.h>
#include <stdint.h>
#include <net/if.h>
#include <netpacket/packet.h>
#include <stdbool.h>
#ifndef LLTD_BOOLEAN_T_DEFINED
typedef bool boolean_t;
#define LLTD_BOOLEAN_T_DEFINED 1
#endif
#include "os/linux/daemon/linux-main.h"

/* the argument of pthread_create(lltdLoop) is embedded_interface_ctx_t*, whose first member is the network_interface_t */
void w2_set_link(void *thread_arg, uint32_t ifType, uint32_t linkSpeedBps, uint32_t mediumType, int kind) {
    network_interface_t *iface = (network_interface_t *)thread_arg;
    /* what kind of device the daemon's discovery code classified it as (bond, bridge, ethernet, 802.11, vlan); -1 = as the daemon set it */
    if (kind >= 0) iface->interfaceType = kind;
    iface->ifType = ifType;
    iface->LinkSpeed = linkSpeedBps;
    iface->MediumType = mediumType;
}
const char *w2_iface_name(void *thread_arg) { return ((network_interface_t *)thread_arg)->deviceName; }
uint32_t w2_iface_mtu(void *thread_arg) { return ((network_interface_t *)thread_arg)->MTU; }
