#include <execinfo.h>
// w2.cc -- World W2: the REAL os/linux/daemon/linux-embedded-main.c + os/linux/lltd_port.c + core over a
// simulated libc/kernel.  Owns: NIC table, sockets, virtual clock, allocator with fault plan, and the
// thread scheduler (exactly one daemon thread runs at a time; every wrapped libc call and - in the
// tsancb flavour - every instrumented memory access of the core is a pre-emption point decided by the
// seeded PRNG).  A vector-clock happens-before detector (edges: pthread_create / pthread_join only)
// reports data races on the core's globals and heap blocks independently of the schedule sampled.
#include "../sim/sim.hh"

#include <arpa/inet.h>
#include <chrono>
#include <errno.h>
#include <fcntl.h>
#include <fstream>
#include <ifaddrs.h>
#include <net/if.h>
#include <netinet/in.h>
#include <netpacket/packet.h>
#include <deque>
#include <pthread.h>
#include <semaphore.h>
#include <signal.h>
#include <sstream>
#include <sys/ioctl.h>
#include <sys/mman.h>
#include <sys/socket.h>
#include <sys/stat.h>
#include <sys/wait.h>
#include <unistd.h>

extern "C" int lltd_embedded_main(int argc, const char *argv[]);
extern "C" void w2_set_link(void *thread_arg, uint32_t ifType, uint32_t linkSpeedBps, uint32_t mediumType, int kind);
extern "C" const char *w2_iface_name(void *thread_arg);
extern "C" {
extern char __start_corebss[] __attribute__((weak));
extern char __stop_corebss[] __attribute__((weak));
extern char __start_coredata[] __attribute__((weak));
extern char __stop_coredata[] __attribute__((weak));
}
extern "C" __attribute__((used, visibility("default"), noinline)) const char *__asan_default_options() {
    return "exitcode=77:detect_leaks=0:abort_on_error=0:handle_abort=1:detect_stack_use_after_return=0:quarantine_size_mb=4";
}
extern "C" __attribute__((used, visibility("default"), noinline)) const char *__ubsan_default_options() { return "print_stacktrace=1:halt_on_error=1:exitcode=77"; }

std::string hex(const uint8_t *p, size_t n) { static const char *d = "0123456789abcdef"; std::string s; for (size_t i = 0; i < n; i++) { s.push_back(d[p[i] >> 4]); s.push_back(d[p[i] & 15]); } return s; }
Bytes unhex(const std::string &s) { Bytes b; auto v = [](char c) -> int { return c >= '0' && c <= '9' ? c - '0' : c >= 'a' && c <= 'f' ? c - 'a' + 10 : 0; }; for (size_t i = 0; i + 1 < s.size(); i += 2) b.push_back((uint8_t)(v(s[i]) * 16 + v(s[i + 1]))); return b; }
static double wall_s() { return std::chrono::duration<double>(std::chrono::steady_clock::now().time_since_epoch()).count(); }
static std::string read_file(const std::string &p) { std::ifstream f(p); std::stringstream s; s << f.rdbuf(); return s.str(); }

// ================================================================ plan
struct NicCfg {
    std::string name;
    Mac mac;
    uint32_t mtu = 1500;
    bool loopback = false;
    uint32_t ipv4 = 0; bool has4 = true;
    uint8_t ipv6[16] = {0}; bool has6 = true;
    bool mtu_ioctl_fails = false, socket_fails = false;
};
enum { EV_FRAME = 0, EV_LINK = 1, EV_EINTR = 2, EV_ZERO = 3 };
struct W2Ev { uint64_t t = 0; int nic = 0; int kind = EV_FRAME; Bytes frame; uint32_t a = 0, b = 0, c = 0; };
struct W2Plan {
    std::string prop = "C17";
    int family = 0;
    uint64_t seed = 1, t0 = 100000;
    std::vector<NicCfg> nics;
    std::vector<W2Ev> evs;
    double p_call = 0.1, p_mem = 0.0;
    int pct_thread = -1; int64_t pct_access = -1;
    int64_t malloc_fail_at = -1; // k-th malloc-family call of the whole run fails (1-based)
    uint64_t sendfail_mask = 0;  // bit i: i-th sendto of the run is refused
    int send_short = -1;         // this sendto index is a short write
    int64_t getifaddrs_fail_from = -1; // getifaddrs calls with index >= this fail
    std::string hostname = "host";
    std::string expect_class;
    int ghosts = 0;              // address-less entries in the getifaddrs list (tun0, wg0: links without a hardware address have ifa_addr == NULL), at seeded positions
    int repeat = 1;              // the event history is played this many times in a row, then every interface receives a topology Reset (retained-memory oracle)
};
static std::string w2plan_to_text(const W2Plan &p) {
    std::ostringstream s;
    s << "w2plan v1\nprop " << p.prop << "\nfamily " << p.family << "\nseed " << p.seed << "\nt0 " << p.t0 << "\np_call " << p.p_call << "\np_mem " << p.p_mem
      << "\npct " << p.pct_thread << " " << p.pct_access << "\nmalloc_fail_at " << p.malloc_fail_at << "\nsendfail_mask " << p.sendfail_mask << "\nsend_short " << p.send_short
      << "\ngetifaddrs_fail_from " << p.getifaddrs_fail_from << "\nhostname " << hex((const uint8_t *)p.hostname.data(), p.hostname.size()) << "\nexpect_class " << (p.expect_class.empty() ? "-" : p.expect_class) << "\nrepeat " << p.repeat << "\nghosts " << p.ghosts << "\n";
    for (auto &n : p.nics)
        s << "nic " << n.name << " " << hex(n.mac.a, 6) << " " << n.mtu << " " << n.loopback << " " << n.ipv4 << " " << n.has4 << " " << hex(n.ipv6, 16) << " " << n.has6 << " " << n.mtu_ioctl_fails << " " << n.socket_fails << "\n";
    for (auto &e : p.evs) s << "ev " << e.t << " " << e.nic << " " << e.kind << " " << e.a << " " << e.b << " " << e.c << " " << (e.frame.empty() ? "-" : hex(e.frame.data(), e.frame.size())) << "\n";
    s << "end\n";
    return s.str();
}
static bool w2plan_from_text(const std::string &text, W2Plan &p) {
    std::istringstream in(text);
    std::string line;
    p = W2Plan();
    bool ended = false;
    while (std::getline(in, line)) {
        if (line.empty() || line[0] == '#') continue;
        std::istringstream ls(line);
        std::string k;
        ls >> k;
        if (k == "w2plan") continue;
        if (k == "end") { ended = true; break; }
        if (k == "prop") ls >> p.prop; else if (k == "family") ls >> p.family; else if (k == "seed") ls >> p.seed; else if (k == "t0") ls >> p.t0;
        else if (k == "p_call") ls >> p.p_call; else if (k == "p_mem") ls >> p.p_mem; else if (k == "pct") ls >> p.pct_thread >> p.pct_access;
        else if (k == "malloc_fail_at") ls >> p.malloc_fail_at; else if (k == "sendfail_mask") ls >> p.sendfail_mask; else if (k == "send_short") ls >> p.send_short;
        else if (k == "getifaddrs_fail_from") ls >> p.getifaddrs_fail_from;
        else if (k == "repeat") ls >> p.repeat;
        else if (k == "ghosts") ls >> p.ghosts;
        else if (k == "hostname") { std::string h; ls >> h; Bytes b = unhex(h); p.hostname.assign(b.begin(), b.end()); }
        else if (k == "expect_class") { ls >> p.expect_class; if (p.expect_class == "-") p.expect_class.clear(); }
        else if (k == "nic") {
            NicCfg n; std::string mac, v6; int lb, h4, h6, mf, sf;
            ls >> n.name >> mac >> n.mtu >> lb >> n.ipv4 >> h4 >> v6 >> h6 >> mf >> sf;
            Bytes m = unhex(mac), x = unhex(v6);
            if (m.size() == 6) memcpy(n.mac.a, m.data(), 6);
            if (x.size() == 16) memcpy(n.ipv6, x.data(), 16);
            n.loopback = lb; n.has4 = h4; n.has6 = h6; n.mtu_ioctl_fails = mf; n.socket_fails = sf;
            p.nics.push_back(n);
        } else if (k == "ev") {
            W2Ev e; std::string f;
            ls >> e.t >> e.nic >> e.kind >> e.a >> e.b >> e.c >> f;
            if (f != "-") e.frame = unhex(f);
            p.evs.push_back(e);
        }
    }
    return ended && !p.nics.empty();
}

// ================================================================ generator
static Mac st_mac(uint64_t seed, int id) { uint64_t x = mix64(seed, 500 + id); Mac m = {{0x02, (uint8_t)(x >> 8), (uint8_t)(x >> 16), (uint8_t)(x >> 24), (uint8_t)(x >> 32), (uint8_t)id}}; return m; }
static Bytes f_discover(const Mac &src, uint8_t tos, uint16_t gen, uint16_t xid, const std::vector<Mac> &list) {
    Bytes f = wire::header(MAC_BCAST, src, tos, wire::W_DISCOVER, MAC_BCAST, src, xid);
    f.resize(36); wire::put16(&f[32], gen); wire::put16(&f[34], (uint16_t)list.size());
    for (auto &m : list) f.insert(f.end(), m.a, m.a + 6);
    return f;
}
static W2Plan gen_w2(const std::string &prop, uint64_t vseed, uint64_t index) {
    uint64_t ph = 0;
    for (char c : prop) ph = ph * 131 + (uint8_t)c;
    uint64_t seed = mix64(mix64(vseed, ph ^ 0x77320000), index);
    Rng r(seed);
    W2Plan p;
    p.prop = prop; p.seed = seed; p.t0 = (uint64_t)r.range(10, 5000) * 1000 + (uint64_t)r.range(0, 999);
    int nn = prop == "C17" ? (int)r.range(2, 3) : (int)r.range(1, 2);
    static const char *NAMES[] = {"eth0", "eth1", "wlan0"};
    // interface names in a prefix relation (VLAN sub-interfaces, eth1/eth10, monitor interfaces), C04 only: each NIC must report ITS addresses
    static const char *PFX[][3] = {{"eth0", "eth0.100", "eth1"}, {"eth1", "eth10", "eth0"}, {"wlan0", "wlan0mon", "eth0"}, {"eth0.100", "eth0", "eth0.1000"}, {"br0", "br0.5", "br"}, {"eth10", "eth1", "eth100"}};
    int pf = -1;
    if (prop == "C04" && r.chance(0.5)) { pf = (int)r.below(6); nn = (int)r.range(2, 3); }
    for (int i = 0; i < nn; i++) {
        NicCfg n;
        n.name = pf >= 0 ? PFX[pf][i] : NAMES[i];
        for (auto &c : n.mac.a) c = (uint8_t)r.next();
        n.mac.a[0] = (uint8_t)((n.mac.a[0] & 0xFC) | 0x08); n.mac.a[5] = (uint8_t)((n.mac.a[5] & 0xF0) | i);
        n.mtu = r.chance(0.6) ? 1500 : (uint32_t)r.pickl({576, 1280, 4096, 9000, 9216});
        n.ipv4 = (uint32_t)r.next(); n.has4 = !r.chance(pf >= 0 ? 0.35 : 0.1);
        if (r.chance(0.25)) { // addresses with a meaning: link-local (and its neighbours), loopback, private, multicast, limited broadcast, unspecified
            static const uint32_t B[] = {0xA9FE0000u, 0xA9FE0101u, 0xA9FEFFFFu, 0xA9FDFFFFu, 0xA9FF0000u, 0x7F000001u, 0x0A000001u, 0xC0A80001u, 0xAC100001u, 0xE0000001u, 0xFFFFFFFFu, 0x00000000u, 0x64400001u, 0xC0000201u};
            n.ipv4 = B[r.below(14)]; if ((n.ipv4 >> 16) == 0xA9FE && r.chance(0.5)) n.ipv4 |= (uint32_t)(r.next() & 0xFFFF);
        }
        for (auto &c : n.ipv6) c = (uint8_t)r.next();
        n.has6 = !r.chance(pf >= 0 ? 0.35 : 0.2);
        n.loopback = false;
        p.nics.push_back(n);
    }
    { size_t hl = r.chance(0.4) ? (size_t)r.pickl({0, 1, 31, 32, 33, 34, 40, 63, 64}) : r.below(40); p.hostname.clear(); for (size_t i = 0; i < hl; i++) p.hostname.push_back((char)r.range('a', 'z')); }
    p.family = (int)r.below(4);
    // schedule knobs (swarm)
    switch (r.below(4)) {
    case 0: p.p_call = 0.0; p.p_mem = 0.0; break;                       // run-to-block: no pre-emption
    case 1: p.p_call = 0.3; p.p_mem = 0.0; break;                       // libc-call granularity
    case 2: p.p_call = 0.2; p.p_mem = r.chance(0.5) ? 0.01 : 0.1; break; // memory-access granularity
    default: p.p_call = 0.05; p.p_mem = 0.0; p.pct_thread = 1 + (int)r.below((uint64_t)nn); p.pct_access = r.range(0, 160); break; // one targeted switch inside a first frame
    }
    // per-NIC histories
    for (int i = 0; i < nn; i++) {
        const NicCfg &n = p.nics[i];
        uint64_t t = p.t0 + (p.family == 0 || r.chance(0.5) ? 10 : (uint64_t)r.range(5, 200)); // family 0: first frames at the same instant
        Mac m1 = st_mac(seed, 10 + i * 2), m2 = st_mac(seed, 11 + i * 2);
        int nf = (int)r.range(1, 10);
        uint16_t seq = (uint16_t)r.range(1, 60000);
        bool active = false;
        for (int k = 0; k < nf; k++) {
            W2Ev e;
            e.nic = i; e.t = t;
            int x = k == 0 ? 0 : (int)r.below(10);
            if (x <= 1) { std::vector<Mac> l; if (r.chance(0.5)) l.push_back(n.mac); e.frame = f_discover(m1, r.chance(0.8) ? 0 : 1, (uint16_t)r.next(), seq++, l); active = true; }
            else if (x == 2) { e.frame = f_discover(m2, 0, (uint16_t)r.next(), seq++, {}); } // a second mapper: must stay unanswered while m1 is active
            else if (x == 3) { e.frame = wire::header(n.mac, m1, 0, wire::W_QUERY, n.mac, m1, seq++); }
            else if (x == 4) { Mac s = st_mac(seed, 100 + (int)r.below(30)); e.frame = wire::header(n.mac, s, 0, r.chance(0.5) ? wire::W_PROBE : wire::W_TRAIN, n.mac, s, 0); }
            else if (x == 5) {
                e.frame = wire::header(n.mac, m1, 0, wire::W_EMIT, n.mac, m1, seq++);
                size_t nd = (size_t)r.range(1, 3);
                e.frame.resize(34); wire::put16(&e.frame[32], (uint16_t)nd);
                for (size_t d = 0; d < nd; d++) { e.frame.push_back((uint8_t)r.below(2)); e.frame.push_back((uint8_t)r.pickl({0, 0, 1, 5})); e.frame.insert(e.frame.end(), n.mac.a, n.mac.a + 6); Mac z = st_mac(seed, 200 + (int)d); e.frame.insert(e.frame.end(), z.a, z.a + 6); }
            }
            else if (x == 6) { e.frame = wire::header(n.mac, m1, 0, wire::W_QLT, n.mac, m1, seq++); e.frame.push_back((uint8_t)r.pickl({0x11, 0x0E, 0x13, 0x55})); e.frame.push_back(0); e.frame.push_back(0); e.frame.push_back((uint8_t)r.below(20)); }
            else if (x == 7) { e.frame = wire::header(MAC_BCAST, m1, 0, wire::W_RESET, MAC_BCAST, m1, 0); active = false; }
            else if (x == 8) { e.frame.resize(r.below(80)); for (auto &c : e.frame) c = (uint8_t)r.next(); if (e.frame.size() > 17) { e.frame[12] = 0x88; e.frame[13] = 0xD9; e.frame[15] = (uint8_t)r.below(3); e.frame[17] = (uint8_t)r.below(13); } }
            else { Mac s = st_mac(seed, 50); e.frame = wire::header(MAC_BCAST, s, 0, wire::W_HELLO, MAC_BCAST, s, 0); e.frame.resize(47, 0); }
            (void)active;
            p.evs.push_back(e);
            t += r.chance(0.6) ? (uint64_t)r.range(0, 3) : (uint64_t)r.range(3, 400);
        }
    }
    if (prop == "C01") { // frames of any length and content through the daemon's own malloc(MTU) + recvfrom(..., MTU)
        int extra = (int)r.range(3, 25);
        for (int k = 0; k < extra; k++) {
            W2Ev e;
            e.nic = (int)r.below(p.nics.size()); e.t = p.t0 + (uint64_t)r.range(5, 600);
            uint32_t mtu = p.nics[e.nic].mtu;
            if (r.chance(0.5) && !p.evs.empty()) { // mutate a valid frame: truncate, pad to around the MTU, rewrite counters
                e.frame = p.evs[r.below(p.evs.size())].frame;
                if (r.chance(0.4) && !e.frame.empty()) e.frame.resize(r.below(e.frame.size() + 1));
                if (r.chance(0.3)) e.frame.resize((size_t)((int64_t)mtu + r.range(-2, 200)), (uint8_t)r.next());
                if (r.chance(0.5) && e.frame.size() >= 36) wire::put16(&e.frame[r.chance(0.5) ? 32 : 34], (uint16_t)r.pickl({0, 1, 0x7FFF, 0xFFFF, 300, (int64_t)(mtu - 34) / 14 + 1, (int64_t)(mtu - 36) / 6 + 1}));
            } else {
                e.frame.resize(r.chance(0.5) ? r.below(120) : r.below(mtu + 200));
                for (auto &c : e.frame) c = (uint8_t)r.next();
                if (e.frame.size() > 17 && r.chance(0.8)) { e.frame[12] = 0x88; e.frame[13] = 0xD9; e.frame[14] = 1; e.frame[15] = (uint8_t)r.below(3); e.frame[17] = (uint8_t)r.below(14); }
            }
            if (r.chance(0.05)) { e.kind = r.chance(0.5) ? EV_EINTR : EV_ZERO; e.frame.clear(); }
            p.evs.push_back(e);
        }
    }
    if (prop == "C04") { // Linux port half: link attributes appear before a Discover
        for (int i = 0; i < nn; i++) {
            W2Ev e; e.nic = i; e.kind = EV_LINK; e.t = p.t0 + 1;
            e.a = r.chance(0.5) ? (uint32_t)r.pickl({6, 71, 0, 0xFFFFFFFFll, 0x100}) : (uint32_t)r.next();
            e.b = r.chance(0.5) ? (uint32_t)r.pickl({0, 99, 100, 101, 10000000, 100000000, 1000000000, 0xFFFFFFFFll, 4294967200ll}) : (uint32_t)r.next();
            e.c = r.chance(0.5) ? 0x10 : (uint32_t)(r.next() & 0xFFFF);
            if (r.chance(0.6)) e.c |= (uint32_t)(1 + r.below(5)) << 24; // the record's device kind (bond, bridge, ethernet, 802.11, vlan), top byte, 0 = as the daemon set it
            p.evs.push_back(e);
            if (r.chance(0.3)) p.nics[i].loopback = true;
        }
        if (r.chance(0.4)) p.ghosts = (int)r.range(1, 2);
        if (r.chance(0.08)) p.ghosts = (int)r.pickl({127, 128, 129, 255, 256, 257, 300, 600, 1200}); // a container host: hundreds of veth links without addresses in the list
    }
    if (prop == "C19") { // longer well-formed sessions, handled frame by frame (the oracle compares one pass of the history with three)
        p.p_call = r.chance(0.7) ? 0.0 : 0.3; p.p_mem = 0; p.pct_thread = -1;
        int extra = (int)r.range(0, 25);
        for (int k = 0; k < extra; k++) {
            W2Ev e;
            e.nic = (int)r.below(p.nics.size()); e.t = p.t0 + (uint64_t)r.range(20, 900);
            const NicCfg &n = p.nics[e.nic];
            Mac m1 = st_mac(seed, 10 + e.nic * 2);
            switch (r.below(5)) {
            case 0: e.frame = wire::header(n.mac, m1, 0, wire::W_QLT, n.mac, m1, (uint16_t)r.range(1, 65535)); e.frame.push_back((uint8_t)r.pickl({0x11, 0x11, 0x0E, 0x13})); e.frame.push_back(0); e.frame.push_back(0); e.frame.push_back((uint8_t)r.below(20)); break;
            case 1: { Mac s = st_mac(seed, 300 + (int)r.below(200)); e.frame = wire::header(n.mac, s, 0, r.chance(0.5) ? wire::W_PROBE : wire::W_TRAIN, n.mac, s, 0); break; }
            case 2: e.frame = wire::header(n.mac, m1, 0, wire::W_QUERY, n.mac, m1, (uint16_t)r.range(1, 65535)); break;
            case 3: e.frame = f_discover(m1, r.chance(0.8) ? 0 : 1, (uint16_t)r.next(), (uint16_t)r.range(1, 65535), {}); break;
            default: e.frame = wire::header(MAC_BCAST, m1, r.chance(0.7) ? 0 : 1, wire::W_RESET, MAC_BCAST, m1, 0); break;
            }
            p.evs.push_back(e);
        }
    }
    if (prop == "C18") { // libc-level faults
        switch (r.below(6)) {
        case 0: p.malloc_fail_at = r.range(1, 40); break;
        case 1: p.sendfail_mask = r.next() & 0xFFFF; break;
        case 2: p.send_short = (int)r.below(6); break;
        case 3: p.nics[r.below(p.nics.size())].mtu_ioctl_fails = true; break;
        case 4: p.getifaddrs_fail_from = r.range(0, 3); break;
        default: { W2Ev e; e.nic = (int)r.below(p.nics.size()); e.kind = r.chance(0.5) ? EV_EINTR : EV_ZERO; e.t = p.t0 + (uint64_t)r.range(0, 300); p.evs.push_back(e); if (p.nics.size() > 1 && r.chance(0.3)) p.nics[1].socket_fails = true; break; }
        }
    }
    std::stable_sort(p.evs.begin(), p.evs.end(), [](const W2Ev &a, const W2Ev &b) { return a.t < b.t; });
    return p;
}

// ================================================================ run-time state (one run per forked child)
enum { TS_RUNNABLE = 0, TS_RECV, TS_SLEEP, TS_JOIN, TS_DONE };
struct VC { uint32_t c[8] = {0}; };
struct Th {
    int id = 0; pthread_t pt; sem_t sem; int state = TS_RUNNABLE; int wait_fd = -1; uint64_t wake_at = 0; int join_target = -1;
    void *(*fn)(void *) = nullptr; void *arg = nullptr; VC vc; std::vector<uintptr_t> stack; uint64_t accesses = 0; void *retval = nullptr;
};
struct NicRt { NicCfg cfg; int fd = -1; std::deque<std::pair<int, Bytes>> rxq; void *thread_arg = nullptr; Hash64 txhash; uint64_t txcount = 0; std::vector<Bytes> txs; };
struct Block { size_t size; int tid; std::string site; bool freed; };
struct ShadowCell { int wtid = -1; uint32_t wclk = 0; uintptr_t wpc = 0; uint32_t rclk[8] = {0}; uintptr_t rpc[8] = {0}; };

static W2Plan g_plan;
static Rng g_rng(1);
static std::vector<Th *> g_th;
static int g_cur = -1;
static __thread int tl_id = -1;
static std::vector<NicRt> g_nic;
static uint64_t g_now = 0;
static size_t g_next_ev = 0;
static Hash64 g_log;
static bool g_active = false;     // scheduler owns the threads
static std::map<uintptr_t, Block> g_heap;
static std::unordered_map<uintptr_t, ShadowCell> g_shadow;
static std::set<std::string> g_races;
static std::map<std::string, uint64_t> g_probe;
static std::vector<std::pair<std::string, std::string>> g_viol; // class, detail
static uint64_t g_malloc_idx = 0, g_send_idx = 0, g_getifaddrs_idx = 0, g_preempt = 0, g_mem_callbacks = 0, g_yields = 0;
static int g_result_fd = -1;
static sighandler_t g_sigint = nullptr;
static bool g_force_run_to_block = false; int g_force_owner = -1;
static std::vector<std::pair<uintptr_t, std::string>> g_syms; // sorted text + data symbols

static void load_symbols(const char *self) {
    std::string cmd = std::string("nm -n --defined-only ") + self + " 2>/dev/null";
    FILE *f = popen(cmd.c_str(), "r");
    if (!f) return;
    char line[1024];
    while (fgets(line, sizeof line, f)) {
        unsigned long a; char t; char name[900];
        if (sscanf(line, "%lx %c %899s", &a, &t, name) == 3 && strchr("tTbBdDrR", t)) g_syms.push_back({(uintptr_t)a, name});
    }
    pclose(f);
}
static std::string sym_of(uintptr_t a) {
    if (g_syms.empty()) return "?";
    auto it = std::upper_bound(g_syms.begin(), g_syms.end(), std::make_pair(a, std::string("\xff")));
    if (it == g_syms.begin()) return "?";
    --it;
    if (a - it->first > 0x10000) return "?";
    return it->second;
}

// ---------------------------------------------------------------- scheduler (baton passing)
static void finish_run();
static void env_step();
static int pick_runnable(int exclude) {
    std::vector<int> c;
    for (auto t : g_th) if (t->state == TS_RUNNABLE && t->id != exclude) c.push_back(t->id);
    if (c.empty()) return -1;
    return c[g_rng.below(c.size())];
}
static void switch_to(int next) {
    int me = tl_id;
    if (next == me) return;
    g_log.u64(0x5C000000ull + (uint64_t)next);
    g_cur = next;
    sem_post(&g_th[next]->sem);
    sem_wait(&g_th[me]->sem);
}
// the running thread reached a scheduling point
static void yield_point(bool mem) {
    if (!g_active || tl_id < 0) return;
    g_yields++;
    Th &me = *g_th[tl_id];
    if (g_force_run_to_block && g_force_owner == me.id) return; // targeted switch: the other thread runs until it blocks
    bool sw = false;
    if (mem) {
        me.accesses++;
        if (g_plan.pct_thread == me.id && (int64_t)me.accesses == g_plan.pct_access) { sw = true; g_probe["targeted_switch"]++; }
        else if (g_plan.p_mem > 0 && g_rng.chance(g_plan.p_mem)) sw = true;
    } else if (g_plan.p_call > 0 && g_rng.chance(g_plan.p_call)) sw = true;
    if (!sw) return;
    int n = pick_runnable(me.id);
    if (n < 0) return;
    g_preempt++;
    if (mem && g_plan.pct_thread == me.id && (int64_t)me.accesses == g_plan.pct_access) { g_force_run_to_block = true; g_force_owner = n; }
    switch_to(n);
}
// the running thread cannot continue (its state is already set to a blocked state)
static void block_here() {
    Th &me = *g_th[tl_id];
    if (g_force_owner == me.id) { g_force_run_to_block = false; g_force_owner = -1; }
    for (;;) {
        if (me.state == TS_RUNNABLE) return;
        int n = pick_runnable(-1);
        if (n < 0) { env_step(); continue; }
        if (n == me.id) return;
        switch_to(n);
        if (me.state == TS_RUNNABLE) return;
    }
}
static void deliver_due() {
    while (g_next_ev < g_plan.evs.size() && g_plan.evs[g_next_ev].t <= g_now) {
        const W2Ev &e = g_plan.evs[g_next_ev++];
        if (e.nic < 0 || e.nic >= (int)g_nic.size()) continue;
        NicRt &n = g_nic[e.nic];
        if (e.kind == EV_LINK) { if (n.thread_arg) { w2_set_link(n.thread_arg, e.a, e.b, e.c & 0xFFFFFF, (int)(e.c >> 24) - 1); g_probe["link_event"]++; } continue; }
        if (n.fd < 0) continue; // interface never came up
        n.rxq.push_back({e.kind, e.frame});
        g_log.u64(0xF4A30000ull + (uint64_t)e.nic); g_log.u64(e.t);
    }
    for (auto t : g_th) {
        if (t->state == TS_RECV) { for (auto &n : g_nic) if (n.fd == t->wait_fd && !n.rxq.empty()) t->state = TS_RUNNABLE; }
        else if (t->state == TS_SLEEP && t->wake_at <= g_now) t->state = TS_RUNNABLE;
    }
}
static void env_step() {
    // nothing can run: let virtual time jump to the next event
    bool loops_quiet = true;
    for (auto &n : g_nic) if (!n.rxq.empty()) loops_quiet = false;
    if (g_next_ev >= g_plan.evs.size() && loops_quiet) {
        bool any_loop_sleeping = false;
        for (auto t : g_th) if (t->id != 0 && t->state == TS_SLEEP) any_loop_sleeping = true;
        if (!any_loop_sleeping) finish_run();
    }
    uint64_t tn = UINT64_MAX;
    if (g_next_ev < g_plan.evs.size()) tn = g_plan.evs[g_next_ev].t;
    for (auto t : g_th) if (t->state == TS_SLEEP && t->wake_at < tn) tn = t->wake_at;
    if (tn == UINT64_MAX) finish_run();
    if (tn > g_now) g_now = tn;
    deliver_due();
}
static void *trampoline(void *p) {
    Th *t = (Th *)p;
    tl_id = t->id;
    sem_wait(&t->sem);
    t->retval = t->fn(t->arg);
    t->state = TS_DONE;
    for (auto o : g_th) if (o->state == TS_JOIN && o->join_target == t->id) { o->state = TS_RUNNABLE; for (int i = 0; i < 8; i++) o->vc.c[i] = std::max(o->vc.c[i], t->vc.c[i]); }
    for (;;) {
        int n = pick_runnable(-1);
        if (n >= 0) { g_cur = n; sem_post(&g_th[n]->sem); break; }
        env_step();
    }
    return nullptr;
}
static Th *new_thread(void *(*fn)(void *), void *arg, const VC *parent) {
    Th *t = new Th();
    t->id = (int)g_th.size(); t->fn = fn; t->arg = arg;
    sem_init(&t->sem, 0, 0);
    if (parent) t->vc = *parent;
    if (t->id < 8) t->vc.c[t->id]++;
    g_th.push_back(t);
    pthread_attr_t at;
    pthread_attr_init(&at);
    pthread_attr_setstacksize(&at, 1 << 20);
    pthread_create(&t->pt, &at, trampoline, t);
    return t;
}

// ---------------------------------------------------------------- happens-before race detector
static bool addr_tracked(uintptr_t a, std::string *obj) {
    if (__start_corebss && a >= (uintptr_t)__start_corebss && a < (uintptr_t)__stop_corebss) { if (obj) *obj = "global " + sym_of(a); return true; }
    if (__start_coredata && a >= (uintptr_t)__start_coredata && a < (uintptr_t)__stop_coredata) { if (obj) *obj = "global " + sym_of(a); return true; }
    auto it = g_heap.upper_bound(a);
    if (it == g_heap.begin()) return false;
    --it;
    if (a < it->first + it->second.size) { if (obj) *obj = "heap block allocated in " + it->second.site; return true; }
    return false;
}
static void on_access(uintptr_t a, size_t size, bool wr, uintptr_t pc) {
    if (!g_active || tl_id < 0) return;
    g_mem_callbacks++;
    Th &me = *g_th[tl_id];
    if (addr_tracked(a, nullptr) && me.id < 8) {
        for (uintptr_t w = a & ~(uintptr_t)7; w < a + size; w += 8) {
            ShadowCell &c = g_shadow[w];
            auto report = [&](int other, bool owr, uintptr_t opc) {
                std::string obj;
                addr_tracked(a, &obj);
                std::string f1 = sym_of(pc) + (wr ? "(write)" : "(read)"), f2 = sym_of(opc) + (owr ? "(write)" : "(read)");
                if (f2 < f1) std::swap(f1, f2);
                g_races.insert(obj + ": " + f1 + " / " + f2);
                (void)other;
            };
            if (c.wtid >= 0 && c.wtid != me.id && c.wclk > me.vc.c[c.wtid]) report(c.wtid, true, c.wpc);
            if (wr) {
                for (int u = 0; u < 8; u++) if (u != me.id && c.rclk[u] > me.vc.c[u]) report(u, false, c.rpc[u]);
                c.wtid = me.id; c.wclk = me.vc.c[me.id]; c.wpc = pc;
            } else { c.rclk[me.id] = me.vc.c[me.id]; c.rpc[me.id] = pc; }
        }
    }
    yield_point(true);
}
extern "C" {
void __tsan_init(void) {}
void __tsan_func_entry(void *) { if (g_active && tl_id >= 0) g_th[tl_id]->stack.push_back((uintptr_t)__builtin_return_address(0)); }
void __tsan_func_exit(void) { if (g_active && tl_id >= 0 && !g_th[tl_id]->stack.empty()) g_th[tl_id]->stack.pop_back(); }
#define ACC(n, sz, w) void n(void *a) { on_access((uintptr_t)a, sz, w, (uintptr_t)__builtin_return_address(0)); }
ACC(__tsan_read1, 1, false) ACC(__tsan_read2, 2, false) ACC(__tsan_read4, 4, false) ACC(__tsan_read8, 8, false) ACC(__tsan_read16, 16, false)
ACC(__tsan_write1, 1, true) ACC(__tsan_write2, 2, true) ACC(__tsan_write4, 4, true) ACC(__tsan_write8, 8, true) ACC(__tsan_write16, 16, true)
ACC(__tsan_unaligned_read2, 2, false) ACC(__tsan_unaligned_read4, 4, false) ACC(__tsan_unaligned_read8, 8, false) ACC(__tsan_unaligned_read16, 16, false)
ACC(__tsan_unaligned_write2, 2, true) ACC(__tsan_unaligned_write4, 4, true) ACC(__tsan_unaligned_write8, 8, true) ACC(__tsan_unaligned_write16, 16, true)
void __tsan_read_range(void *a, unsigned long n) { on_access((uintptr_t)a, n, false, (uintptr_t)__builtin_return_address(0)); }
void __tsan_write_range(void *a, unsigned long n) { on_access((uintptr_t)a, n, true, (uintptr_t)__builtin_return_address(0)); }
}

// ---------------------------------------------------------------- simulated libc / kernel (symbols of the repo objects are redirected here by objcopy --redefine-sym)
static std::string cur_site() {
    if (tl_id >= 0 && tl_id < (int)g_th.size() && !g_th[tl_id]->stack.empty()) return sym_of(g_th[tl_id]->stack.back());
    // builds without function-entry callbacks: first frame of the call stack that is repository code other than the port's malloc wrapper
    void *bt[8];
    int n = backtrace(bt, 8);
    for (int i = 1; i < n; i++) {
        std::string f = sym_of((uintptr_t)bt[i]);
        if (f.empty() || f == "?" || f.compare(0, 3, "w2_") == 0 || f == "led_alloc" || f == "cur_site" || f == "lltd_port_malloc" || f.find("led_alloc") != std::string::npos || f.find("cur_site") != std::string::npos) continue;
        return f;
    }
    return "daemon";
}
static void *led_alloc(size_t size, bool zero) {
    g_malloc_idx++;
    if (g_plan.malloc_fail_at > 0 && (int64_t)g_malloc_idx == g_plan.malloc_fail_at) { g_probe["malloc_fault_fired"]++; errno = ENOMEM; return nullptr; }
    void *p = malloc(size ? size : 1);
    if (!p) abort();
    memset(p, zero ? 0 : 0xA5, size);
    g_heap[(uintptr_t)p] = Block{size, tl_id, cur_site(), false};
    // fresh object: forget what the detector knew about these words
    if (g_active) for (uintptr_t w = (uintptr_t)p & ~(uintptr_t)7; w < (uintptr_t)p + size; w += 8) g_shadow.erase(w);
    return p;
}
extern "C" {
void *w2_malloc(size_t n) { void *p = led_alloc(n, false); yield_point(false); return p; }
void *w2_calloc(size_t a, size_t b) { void *p = led_alloc(a * b, true); yield_point(false); return p; }
void w2_free(void *p) {
    if (!p) return;
    auto it = g_heap.find((uintptr_t)p);
    if (it == g_heap.end()) { g_viol.push_back({"bad-free", "free of a pointer the daemon never allocated"}); return; }
    if (it->second.freed) { g_viol.push_back({"double-free", "block allocated in " + it->second.site + " freed twice"}); return; }
    it->second.freed = true; // quarantined until the run ends: addresses are never reused within a run
    yield_point(false);
}
void *w2_realloc(void *p, size_t n) {
    void *q = led_alloc(n, false);
    if (!q) return nullptr;
    if (p) { auto it = g_heap.find((uintptr_t)p); if (it != g_heap.end()) { memcpy(q, p, std::min(n, it->second.size)); it->second.freed = true; } }
    return q;
}
char *w2_strdup(const char *s) { size_t n = strlen(s) + 1; char *p = (char *)led_alloc(n, false); if (p) memcpy(p, s, n); return p; }
char *w2_getenv(const char *) { return nullptr; }
sighandler_t w2_signal(int sig, sighandler_t h) { if (sig == SIGINT) g_sigint = h; return SIG_DFL; }
static int g_last_lookup = -1, g_next_fd = 100;
int w2_socket(int, int, int) {
    // the daemon looks the interface up by name right before it opens its socket
    if (g_last_lookup >= 0 && g_nic[g_last_lookup].cfg.socket_fails) { g_probe["socket_fault_fired"]++; errno = EPERM; return -1; }
    return g_next_fd++;
}
int w2_bind(int fd, const struct sockaddr *sa, socklen_t) {
    const struct sockaddr_ll *ll = (const struct sockaddr_ll *)sa;
    int idx = ll->sll_ifindex - 1;
    if (idx < 0 || idx >= (int)g_nic.size()) { errno = ENODEV; return -1; }
    g_nic[idx].fd = fd; // from now on frames of this NIC are readable on fd
    return 0;
}
int w2_close(int fd) { for (auto &n : g_nic) if (n.fd == fd) { n.fd = -3; n.rxq.clear(); } return 0; }
unsigned int w2_if_nametoindex(const char *name) { for (size_t i = 0; i < g_nic.size(); i++) if (g_nic[i].cfg.name == name) { g_last_lookup = (int)i; return (unsigned)i + 1; } return 0; }
int w2_ioctl(int fd, unsigned long req, void *argp) {
    struct ifreq *ifr = (struct ifreq *)argp;
    NicRt *n = nullptr;
    for (auto &x : g_nic) if (x.cfg.name == ifr->ifr_name) n = &x;
    (void)fd;
    if (!n) { errno = ENODEV; return -1; }
    if (req == SIOCGIFMTU) { if (n->cfg.mtu_ioctl_fails) { g_probe["mtu_ioctl_fault_fired"]++; errno = EIO; return -1; } ifr->ifr_mtu = (int)n->cfg.mtu; return 0; }
    if (req == SIOCGIFHWADDR) { memcpy(ifr->ifr_hwaddr.sa_data, n->cfg.mac.a, 6); return 0; }
    if (req == SIOCGIFFLAGS) { ifr->ifr_flags = (short)(IFF_UP | IFF_RUNNING | (n->cfg.loopback ? IFF_LOOPBACK : 0)); return 0; }
    errno = EINVAL; return -1;
}
static int64_t g_ifaddrs_outstanding = 0;
int w2_getifaddrs(struct ifaddrs **out) {
    int64_t idx = (int64_t)g_getifaddrs_idx++;
    if (g_plan.getifaddrs_fail_from >= 0 && idx >= g_plan.getifaddrs_fail_from) { g_probe["getifaddrs_fault_fired"]++; errno = ENOMEM; return -1; }
    struct ifaddrs *head = nullptr, **tail = &head;
    // the kernel lists interfaces in index order, which need not be the order the daemon opened them in: order drawn from the plan's seed
    std::vector<size_t> ord;
    for (size_t i = 0; i < g_nic.size(); i++) ord.push_back(i);
    { uint64_t x = mix64(g_plan.seed, 0x1FADD5); for (size_t i = ord.size(); i > 1; i--) { std::swap(ord[i - 1], ord[x % i]); x = mix64(x, i); } }
    for (size_t oi : ord) {
        NicRt &n = g_nic[oi];
        for (int fam = 0; fam < 3; fam++) {
            if (fam == 1 && !n.cfg.has4) continue;
            if (fam == 2 && !n.cfg.has6) continue;
            struct ifaddrs *a = (struct ifaddrs *)calloc(1, sizeof(*a));
            a->ifa_name = strdup(n.cfg.name.c_str());
            a->ifa_flags = IFF_UP | IFF_RUNNING; // the embedded daemon skips loopback interfaces when it lists them; the flag itself is reported by SIOCGIFFLAGS
            if (fam == 0) { struct sockaddr_ll *s = (struct sockaddr_ll *)calloc(1, sizeof(*s)); s->sll_family = AF_PACKET; a->ifa_addr = (struct sockaddr *)s; }
            else if (fam == 1) { struct sockaddr_in *s = (struct sockaddr_in *)calloc(1, sizeof(*s)); s->sin_family = AF_INET; uint8_t b[4] = {(uint8_t)(n.cfg.ipv4 >> 24), (uint8_t)(n.cfg.ipv4 >> 16), (uint8_t)(n.cfg.ipv4 >> 8), (uint8_t)n.cfg.ipv4}; memcpy(&s->sin_addr, b, 4); a->ifa_addr = (struct sockaddr *)s; }
            else { struct sockaddr_in6 *s = (struct sockaddr_in6 *)calloc(1, sizeof(*s)); s->sin6_family = AF_INET6; memcpy(&s->sin6_addr, n.cfg.ipv6, 16); a->ifa_addr = (struct sockaddr *)s; }
            *tail = a; tail = &a->ifa_next;
            if (fam == 1 && (mix64(g_plan.seed, 0x5ec0 + oi) % 4) == 0 && g_plan.prop == "C04") { // a secondary address: the kernel lists it after the primary one
                struct ifaddrs *b = (struct ifaddrs *)calloc(1, sizeof(*b));
                b->ifa_name = strdup(n.cfg.name.c_str());
                b->ifa_flags = IFF_UP | IFF_RUNNING;
                struct sockaddr_in *s2 = (struct sockaddr_in *)calloc(1, sizeof(*s2)); s2->sin_family = AF_INET;
                uint32_t sec = (uint32_t)mix64(g_plan.seed, 0x5ec1 + oi); memcpy(&s2->sin_addr, &sec, 4); b->ifa_addr = (struct sockaddr *)s2;
                *tail = b; tail = &b->ifa_next;
                g_probe["secondary_ipv4_listed"]++;
            }
        }
    }
    // links without an address of any kind: entries whose ifa_addr is NULL, inserted at seeded positions (also in front)
    for (int gi = 0; gi < g_plan.ghosts; gi++) {
        struct ifaddrs *a = (struct ifaddrs *)calloc(1, sizeof(*a));
        { char nm[24]; if (gi < 2) snprintf(nm, sizeof nm, "%s", gi == 0 ? "tun0" : "wg0"); else snprintf(nm, sizeof nm, "veth%d", gi); a->ifa_name = strdup(nm); }
        a->ifa_flags = (mix64(g_plan.seed, 0x6057 + (uint64_t)gi) & 1) ? (IFF_UP | IFF_RUNNING | IFF_POINTOPOINT) : IFF_POINTOPOINT;
        a->ifa_addr = nullptr;
        size_t len = 0; for (struct ifaddrs *c = head; c; c = c->ifa_next) len++;
        size_t pos = (size_t)(mix64(g_plan.seed, 0x6058 + (uint64_t)gi) % (len + 1));
        struct ifaddrs **pp = &head;
        for (size_t i = 0; i < pos && *pp; i++) pp = &(*pp)->ifa_next;
        a->ifa_next = *pp; *pp = a;
    }
    *out = head;
    g_ifaddrs_outstanding++;
    yield_point(false);
    return 0;
}
void w2_freeifaddrs(struct ifaddrs *a) { if (a) g_ifaddrs_outstanding--; while (a) { struct ifaddrs *n = a->ifa_next; free(a->ifa_name); free(a->ifa_addr); free(a); a = n; } }
int w2_gethostname(char *buf, size_t len) {
    // glibc: a name that does not fit together with its terminator is truncated AND reported as an error (ENAMETOOLONG); musl truncates silently
    bool glibc = (mix64(g_plan.seed, 0x61bc) & 3) != 0;
    if (glibc && len < g_plan.hostname.size() + 1) { if (len) memcpy(buf, g_plan.hostname.data(), len); g_probe["gethostname_enametoolong"]++; errno = ENAMETOOLONG; return -1; }
    size_t n = std::min(len ? len - 1 : 0, g_plan.hostname.size()); memcpy(buf, g_plan.hostname.data(), n); if (len) buf[n] = 0; return 0;
}
int w2_clock_gettime(clockid_t, struct timespec *ts) { ts->tv_sec = (time_t)(g_now / 1000); ts->tv_nsec = (long)(g_now % 1000) * 1000000L; return 0; }
int w2_nanosleep(const struct timespec *req, struct timespec *) {
    if (!g_active || tl_id < 0) return 0;
    uint64_t ms = (uint64_t)req->tv_sec * 1000 + (uint64_t)req->tv_nsec / 1000000;
    Th &me = *g_th[tl_id];
    g_log.u64(0x51EE0000ull + ms);
    if (ms == 0) { yield_point(false); return 0; }
    me.state = TS_SLEEP; me.wake_at = g_now + ms;
    block_here();
    return 0;
}
unsigned int w2_sleep(unsigned int s) { struct timespec ts = {(time_t)s, 0}; w2_nanosleep(&ts, nullptr); return 0; }
ssize_t w2_recvfrom(int fd, void *buf, size_t len, int, struct sockaddr *, socklen_t *) {
    Th &me = *g_th[tl_id];
    NicRt *n = nullptr;
    for (auto &x : g_nic) if (x.fd == fd) n = &x;
    if (!n) { errno = EBADF; me.state = TS_SLEEP; me.wake_at = g_now + 1000; block_here(); return -1; }
    yield_point(false);
    while (n->rxq.empty()) { me.state = TS_RECV; me.wait_fd = fd; block_here(); }
    auto e = n->rxq.front();
    n->rxq.pop_front();
    if (e.first == EV_EINTR) { g_probe["recv_eintr_fired"]++; errno = EINTR; return -1; }
    if (e.first == EV_ZERO) { g_probe["recv_zero_fired"]++; return 0; }
    size_t k = std::min(len, e.second.size());
    if (k) memcpy(buf, e.second.data(), k); // ASan flavour: a receive buffer smaller than `len` is caught here
    g_log.u64(0x4ECF0000ull + k); g_log.u64((uint64_t)me.id);
    g_probe["frames_received"]++;
    return (ssize_t)k;
}
ssize_t w2_sendto(int fd, const void *buf, size_t len, int, const struct sockaddr *, socklen_t) {
    NicRt *n = nullptr;
    for (auto &x : g_nic) if (x.fd == fd) n = &x;
    uint64_t idx = g_send_idx++;
    Bytes b((const uint8_t *)buf, (const uint8_t *)buf + len);
    bool refused = idx < 64 && ((g_plan.sendfail_mask >> idx) & 1);
    bool shortw = g_plan.send_short >= 0 && (int)idx == g_plan.send_short;
    if (n) {
        n->txhash.u64(len | (refused ? 1ull << 40 : 0)); n->txhash.bytes(b.data(), b.size()); n->txcount++;
        if (!refused) n->txs.push_back(b);
    }
    g_log.u64(0x5E4D0000ull + len); g_log.bytes(b.data(), b.size());
    yield_point(false);
    if (refused) { g_probe["send_refused_fired"]++; errno = ENOBUFS; return -1; }
    if (shortw && len > 1) { g_probe["send_short_fired"]++; return (ssize_t)len - 1; }
    return (ssize_t)len;
}
int w2_pthread_create(pthread_t *out, const pthread_attr_t *, void *(*fn)(void *), void *arg) {
    Th &me = *g_th[tl_id];
    Th *t = new_thread(fn, arg, &me.vc);
    if (me.id < 8) me.vc.c[me.id]++;
    *out = t->pt;
    // the argument is the embedded_interface_ctx_t of one NIC: remember it for link events
    { const char *nm = w2_iface_name(arg); for (auto &n : g_nic) if (nm && n.cfg.name == nm) n.thread_arg = arg; }
    yield_point(false);
    return 0;
}
int w2_pthread_join(pthread_t pt, void **ret) {
    Th &me = *g_th[tl_id];
    for (auto t : g_th) if (pthread_equal(t->pt, pt)) {
        if (t->state != TS_DONE) { me.state = TS_JOIN; me.join_target = t->id; block_here(); }
        for (int i = 0; i < 8; i++) me.vc.c[i] = std::max(me.vc.c[i], t->vc.c[i]);
        if (ret) *ret = t->retval;
        return 0;
    }
    return ESRCH;
}
static char g_fmtbuf[4096];
FILE *w2_fopen(const char *, const char *) { return nullptr; }
int w2_fclose(FILE *) { return 0; }
int w2_fflush(FILE *) { return 0; }
int w2_fputc(int c, FILE *) { return c; }
int w2_fputs(const char *, FILE *) { return 0; }
size_t w2_fwrite(const void *, size_t, size_t n, FILE *) { return n; }
int w2_vfprintf(FILE *, const char *fmt, va_list ap) { return vsnprintf(g_fmtbuf, sizeof g_fmtbuf, fmt, ap); }
int w2_fprintf(FILE *, const char *fmt, ...) { va_list ap; va_start(ap, fmt); int r = vsnprintf(g_fmtbuf, sizeof g_fmtbuf, fmt, ap); va_end(ap); return r; }
} // extern "C"

// ---------------------------------------------------------------- run one plan inside this (forked) process
static void *daemon_main(void *) {
    const char *argv[] = {"lltdd", nullptr};
    int rc = lltd_embedded_main(1, argv);
    g_probe["daemon_main_returned_" + std::to_string(rc)]++;
    return nullptr;
}
// monitors applied to everything the daemon sent
static void tx_monitors() {
    for (auto &n : g_nic) {
        uint32_t bound = n.cfg.mtu_ioctl_fails ? std::max<uint32_t>(1500, n.cfg.mtu) : n.cfg.mtu;
        for (auto &f : n.txs) {
            g_probe["tx_frames"]++;
            if (f.size() < 32) { g_viol.push_back({"tx-too-short", "frame shorter than the base header"}); continue; }
            if (f.size() > bound) g_viol.push_back({"tx-exceeds-mtu", "frame of " + std::to_string(f.size()) + " bytes on " + n.cfg.name + " with MTU " + std::to_string(bound)});
            if (f[12] != 0x88 || f[13] != 0xD9 || f[14] != 1 || f[16] != 0) g_viol.push_back({"tx-malformed", "EtherType/version/reserved wrong"});
            if (memcmp(&f[24], n.cfg.mac.a, 6) != 0) g_viol.push_back({"tx-real-source", "real source is not the address of " + n.cfg.name});
            if (f[17] == wire::W_HELLO && f.size() > 46) {
                g_probe["hello_frames"]++;
                // Linux port half of C04: decode the attributes the port derived from the interface record
                size_t p = 46;
                bool ok = true;
                while (p < f.size() && f[p] != 0 && ok) {
                    if (p + 2 > f.size() || p + 2 + f[p + 1] > f.size()) { ok = false; break; }
                    uint8_t t = f[p], l = f[p + 1];
                    const uint8_t *v = &f[p + 2];
                    if (t == 0x01 && (l != 6 || memcmp(v, n.cfg.mac.a, 6) != 0)) g_viol.push_back({"linux-hostid", "host id is not the NIC address"});
                    if (t == 0x02 && l == 4) {
                        uint32_t c = wire::be32(v);
                        bool lb = (c & (0x0800u << 16)) != 0;
                        if (lb != n.cfg.loopback) g_viol.push_back({"linux-loopback-bit", std::string("loopback characteristics bit is ") + (lb ? "set" : "clear") + " but IFF_LOOPBACK is " + (n.cfg.loopback ? "set" : "clear")});
                        if (g_probe.count("link_event")) {
                            uint32_t medium = 0; bool have = false;
                            for (auto &e : g_plan.evs) if (e.kind == EV_LINK && e.nic == (int)(&n - &g_nic[0])) { medium = e.c & 0xFFFFFF; have = true; }
                            if (have) { bool fdx = (c & (0x2000u << 16)) != 0; if (fdx != ((medium & 0x10) != 0)) g_viol.push_back({"linux-duplex-bit", "duplex characteristics bit does not follow IFM_FDX"}); g_probe["duplex_checked"]++; }
                        }
                    }
                    if (g_probe.count("link_event")) {
                        for (auto &e : g_plan.evs) if (e.kind == EV_LINK && e.nic == (int)(&n - &g_nic[0])) {
                            if (t == 0x03 && l == 4 && wire::be32(v) != e.a) g_viol.push_back({"linux-iftype", "interface type " + std::to_string(wire::be32(v)) + " != record " + std::to_string(e.a)});
                            if (t == 0x0C && l == 4) { g_probe["speed_checked"]++; if (wire::be32(v) != e.b / 100) g_viol.push_back({"linux-link-speed", "link speed " + std::to_string(wire::be32(v)) + " != floor(" + std::to_string(e.b) + " / 100)"}); }
                        }
                    }
                    if (t == 0x07 && l == 4) { uint32_t want = n.cfg.has4 && g_plan.getifaddrs_fail_from < 0 ? n.cfg.ipv4 : 0; if (wire::be32(v) != want && !(g_plan.getifaddrs_fail_from >= 0 && wire::be32(v) == n.cfg.ipv4)) g_viol.push_back({"linux-ipv4", "IPv4 property differs from the interface address"}); }
                    if (t == 0x08 && l == 16) { bool z = true; for (int i = 0; i < 16; i++) if (v[i]) z = false; if (memcmp(v, n.cfg.ipv6, 16) != 0 && !(z && (!n.cfg.has6 || g_plan.getifaddrs_fail_from >= 0))) g_viol.push_back({"linux-ipv6", "IPv6 property differs from the interface address"}); }
                    if (t == 0x0F) { size_t want = std::min((size_t)32, g_plan.hostname.size()); if (l != want || memcmp(v, g_plan.hostname.data(), want) != 0) g_viol.push_back({"linux-hostname", "machine name is not the first min(32, n) bytes of the host name"}); }
                    p += 2 + l;
                }
                if (!ok || p != f.size() - 1) g_viol.push_back({"hello-structure", "property list does not end with the end marker as last byte"});
            }
        }
    }
}
static void finish_run() {
    g_active = false;
    tx_monitors();
    // lost interface state: more per-interface records allocated than interfaces served
    uint64_t recs = 0, ifs = 0;
    for (auto &kv : g_heap) if (kv.second.site == "lltd_state_for_iface") recs++;
    for (auto &n : g_nic) if (n.fd >= 0) ifs++;
    std::ostringstream o;
    o << "HASH " << g_log.h << "\n";
    for (size_t i = 0; i < g_nic.size(); i++) o << "NIC " << i << " " << g_nic[i].txhash.h << " " << g_nic[i].txcount << "\n";
    o << "RECS " << recs << " " << ifs << "\n";
    { uint64_t lb = 0, ly = 0; std::map<std::string, uint64_t> per; for (auto &kv : g_heap) if (!kv.second.freed) { lb++; ly += kv.second.size; per[kv.second.site]++; }
      o << "LIVE " << lb << " " << ly << " " << g_ifaddrs_outstanding << "\n";
      for (auto &kv : per) o << "LSITE " << kv.second << " " << kv.first << "\n"; }
    for (auto &r : g_races) o << "RACE " << r << "\n";
    for (auto &v : g_viol) o << "VIOL " << v.first << "\t" << v.second << "\n";
    g_probe["preemptions"] += g_preempt; g_probe["mem_callbacks"] += g_mem_callbacks; g_probe["yield_points"] += g_yields; g_probe["sim_ms"] += g_now - g_plan.t0;
    for (auto &p : g_probe) o << "PROBE " << p.first << " " << p.second << "\n";
    o << "DONE\n";
    std::string s = o.str();
    ssize_t wr = write(g_result_fd, s.data(), s.size());
    (void)wr;
    _exit(0);
}
static void run_child(const W2Plan &p, int only_nic, int fd) {
    g_plan = p;
    if (only_nic >= 0) { // solo history of one interface: the other interfaces exist but receive nothing
        std::vector<W2Ev> keep;
        for (auto &e : g_plan.evs) if (e.nic == only_nic || e.kind == EV_LINK) keep.push_back(e);
        g_plan.evs = keep;
        g_plan.p_call = 0; g_plan.p_mem = 0; g_plan.pct_thread = -1;
    }
    if (g_plan.repeat >= 1 && (p.prop == "C19" || p.prop == "C18")) {
        // play the history `repeat` times back to back, then end every interface's session with a topology Reset
        std::vector<W2Ev> body = g_plan.evs, all;
        uint64_t span = 1000;
        for (auto &e : body) span = std::max(span, e.t - p.t0 + 1000);
        for (int k = 0; k < g_plan.repeat; k++) for (auto e : body) { if (k > 0 && e.kind == EV_LINK) continue; e.t += span * (uint64_t)k; all.push_back(e); }
        for (size_t i = 0; i < g_plan.nics.size(); i++) {
            W2Ev e; e.nic = (int)i; e.kind = EV_FRAME; e.t = p.t0 + span * (uint64_t)g_plan.repeat + 500;
            Mac m = st_mac(p.seed, 10 + (int)i * 2);
            e.frame = wire::header(MAC_BCAST, m, 0, wire::W_RESET, MAC_BCAST, m, 0);
            all.push_back(e);
        }
        g_plan.evs = all;
    }
    g_rng.reseed(mix64(p.seed, 0x5CED));
    g_result_fd = fd;
    g_now = p.t0;
    g_nic.clear();
    for (auto &c : p.nics) { NicRt n; n.cfg = c; g_nic.push_back(n); }
    g_log.u64(p.seed);
    alarm(60);
    Th *t0 = new_thread(daemon_main, nullptr, nullptr);
    g_active = true;
    g_cur = 0;
    sem_post(&t0->sem);
    for (;;) pause();
}

// ================================================================ parent side
struct ChildRes { uint64_t live_blocks = 0, live_bytes = 0; int64_t ifaddrs_out = 0; std::map<std::string, uint64_t> live_site; bool ok = false, crashed = false; uint64_t hash = 0; std::vector<std::pair<uint64_t, uint64_t>> nic; uint64_t recs = 0, ifs = 0; std::vector<std::string> races; std::vector<std::pair<std::string, std::string>> viol; std::map<std::string, uint64_t> probe; std::string crash_text; };
static std::string g_tmp = "build/tmp";
static ChildRes exec_child_once(const W2Plan &p, int only_nic) {
    ChildRes r;
    int fd[2];
    if (pipe(fd) != 0) exit(2);
    std::string errf = g_tmp + "/w2child." + std::to_string(getpid()) + ".err";
    fflush(stdout);
    pid_t pid = fork();
    if (pid == 0) {
        close(fd[0]);
        int e = open(errf.c_str(), O_WRONLY | O_CREAT | O_TRUNC, 0644);
        if (e >= 0) { dup2(e, 2); close(e); }
        run_child(p, only_nic, fd[1]);
        _exit(3);
    }
    close(fd[1]);
    std::string buf;
    char tmp[8192];
    ssize_t n;
    while ((n = read(fd[0], tmp, sizeof tmp)) > 0) buf.append(tmp, (size_t)n);
    close(fd[0]);
    int st = 0;
    waitpid(pid, &st, 0);
    if (WIFEXITED(st) && WEXITSTATUS(st) == 0 && buf.find("DONE\n") != std::string::npos) {
        r.ok = true;
        std::istringstream is(buf);
        std::string line;
        while (std::getline(is, line)) {
            std::istringstream ls(line);
            std::string k;
            ls >> k;
            if (k == "HASH") ls >> r.hash;
            else if (k == "NIC") { int i; uint64_t h, c; ls >> i >> h >> c; r.nic.push_back({h, c}); }
            else if (k == "RECS") ls >> r.recs >> r.ifs;
            else if (k == "LIVE") ls >> r.live_blocks >> r.live_bytes >> r.ifaddrs_out;
            else if (k == "LSITE") { uint64_t c; ls >> c; std::string site; std::getline(ls, site); if (!site.empty() && site[0] == ' ') site.erase(0, 1); r.live_site[site] = c; }
            else if (k == "RACE") r.races.push_back(line.substr(5));
            else if (k == "VIOL") { std::string rest = line.substr(5); auto t = rest.find('\t'); r.viol.push_back({rest.substr(0, t), t == std::string::npos ? "" : rest.substr(t + 1)}); }
            else if (k == "PROBE") { std::string nme; uint64_t v; ls >> nme >> v; r.probe[nme] += v; }
        }
    } else { r.crashed = true; r.crash_text = read_file(errf) + "\n[wait status " + std::to_string(st) + ", " + std::to_string(buf.size()) + " result bytes]"; }
    unlink(errf.c_str());
    return r;
}
// A W2 run is deterministic by construction; a child that dies once and not again is an artefact of the host (fork under load),
// never of the code under test.  Retry once, keep the evidence of the first attempt for inspection.
static ChildRes exec_child(const W2Plan &p, int only_nic) {
    ChildRes r = exec_child_once(p, only_nic);
    if (!r.crashed) return r;
    ChildRes r2 = exec_child_once(p, only_nic);
    if (r2.crashed) return r2;
    { std::ofstream f(g_tmp + "/../w2-transient.log", std::ios::app); f << "transient child failure, seed " << p.seed << ": " << r.crash_text.substr(0, 2000) << "\n"; }
    r2.probe["transient_child_failures"]++;
    return r2;
}
struct Verdict { std::string cls, detail; };
static std::string crash_class(const std::string &txt, std::string &detail) {
    std::string kind = "abnormal-exit";
    size_t p;
    if ((p = txt.find("ERROR: AddressSanitizer: ")) != std::string::npos) { size_t q = txt.find_first_of(" \n", p + 25); kind = "asan-" + txt.substr(p + 25, q - (p + 25)); }
    else if ((p = txt.find("runtime error: ")) != std::string::npos) kind = "ubsan";
    std::string where;
    std::istringstream is(txt);
    std::string line;
    while (std::getline(is, line)) {
        auto in = line.find(" in ");
        if (line.find("    #") != std::string::npos && in != std::string::npos && (line.find("lltdResponder/") != std::string::npos || line.find("/os/") != std::string::npos)) { std::string rest = line.substr(in + 4); where = rest.substr(0, rest.find(' ')); break; }
    }
    detail = kind + (where.empty() ? "" : " in " + where);
    return "crash-" + kind + (where.empty() ? "" : "@" + where);
}
// evaluate one plan: joint run (+ solo runs for C17); returns the verdicts
static std::vector<Verdict> evaluate(const W2Plan &p, ChildRes *joint_out, std::map<std::string, uint64_t> *probes) {
    std::vector<Verdict> v;
    ChildRes j = exec_child(p, -1);
    if (joint_out) *joint_out = j;
    if (j.crashed) { std::string d; std::string c = crash_class(j.crash_text, d); v.push_back({p.prop + ":" + c, d}); return v; }
    if (probes) for (auto &kv : j.probe) (*probes)[kv.first] += kv.second;
    for (auto &x : j.viol) {
        bool linux_half = x.first.compare(0, 6, "linux-") == 0;
        if (p.prop == "C04" && !linux_half) continue;
        if (p.prop == "C17" || p.prop == "C01") continue; // wire-format clauses belong to the other checks
        v.push_back({p.prop + ":" + x.first, x.second});
    }
    if (p.prop == "C19" || p.prop == "C18") {
        // retained memory must not depend on the length of the history: the same history three times over, each followed by the
        // closing Resets, leaves exactly as many live allocations behind as one pass does (and no address list of getifaddrs)
        if (j.ifaddrs_out != 0) v.push_back({p.prop + ":linux-ifaddrs-not-released", std::to_string((long long)j.ifaddrs_out) + " getifaddrs() list(s) never handed to freeifaddrs()"});
        W2Plan q = p;
        q.repeat = p.repeat * 3;
        ChildRes k = exec_child(q, -1);
        if (probes) (*probes)["retained_compared"]++;
        if (k.ok && j.ok && k.live_blocks > j.live_blocks) {
            std::string where;
            for (auto &kv : k.live_site) { uint64_t a = j.live_site.count(kv.first) ? j.live_site[kv.first] : 0; if (kv.second > a) where += (where.empty() ? "" : ", ") + kv.first + " " + std::to_string(a) + " -> " + std::to_string(kv.second); }
            v.push_back({p.prop + ":linux-retained-grows-with-history", "live allocations after the closing Resets: " + std::to_string(j.live_blocks) + " after one pass of the history, " + std::to_string(k.live_blocks) + " after three (" + where + ")"});
        }
        if (k.crashed) { std::string d; std::string c = crash_class(k.crash_text, d); v.push_back({p.prop + ":" + c, d}); }
    }
    if (p.prop == "C17") {
        for (auto &r : j.races) v.push_back({"C17:data-race", r});
        bool lost = j.recs > j.ifs;
        if (lost && probes) (*probes)["lost_interface_state_record"]++;
        for (size_t i = 0; i < p.nics.size(); i++) {
            ChildRes s = exec_child(p, (int)i);
            if (probes) (*probes)["solo_runs"]++;
            if (s.crashed || !s.ok || i >= j.nic.size() || i >= s.nic.size()) continue;
            if (j.nic[i].second || s.nic[i].second) { if (probes) (*probes)["nonempty_trace_compared"]++; }
            if (j.nic[i] != s.nic[i]) {
                // is it explained by a pre-emption inside the unsynchronised list update?  Re-run the same histories with every frame
                // handled atomically (threads switch only where they block): if the traces still differ, the race is not the cause.
                W2Plan q = p;
                q.p_call = 0; q.p_mem = 0; q.pct_thread = -1;
                ChildRes a = exec_child(q, -1);
                bool atomic_differs = a.ok && i < a.nic.size() && a.nic[i] != s.nic[i];
                if (probes) (*probes)[atomic_differs ? "crosstalk_also_without_preemption" : "crosstalk_only_with_preemption"]++;
                std::string why = atomic_differs ? " (also when every frame is handled atomically: not explained by thread pre-emption)"
                                                 : (lost ? " (lost interface state record: " + std::to_string(j.recs) + " records for " + std::to_string(j.ifs) + " interfaces; traces agree when frames are handled atomically)"
                                                         : " (only under pre-emption; no state record was lost)");
                v.push_back({"C17:cross-talk-threaded", std::string("interface ") + p.nics[i].name + ": trace under the threaded schedule differs from the trace of its own history alone" + why});
                break;
            }
        }
    }
    return v;
}

struct Known { std::string prop, cls, key, text; };
static std::vector<Known> load_known(const std::string &path) {
    std::vector<Known> k;
    std::ifstream in(path);
    std::string line;
    while (std::getline(in, line)) {
        if (line.compare(0, 6, "known:") != 0) continue;
        Known e;
        auto grab = [&](const std::string &tag) -> std::string {
            auto p = line.find(tag + "=");
            if (p == std::string::npos) return "";
            p += tag.size() + 1;
            if (p < line.size() && line[p] == '"') { auto q = line.find('"', p + 1); return line.substr(p + 1, q - p - 1); }
            auto q = line.find(' ', p);
            return line.substr(p, q == std::string::npos ? std::string::npos : q - p);
        };
        e.prop = grab("property"); e.cls = grab("class"); e.key = grab("key");
        auto t = line.find("::");
        if (t != std::string::npos) e.text = line.substr(t + 2);
        k.push_back(e);
    }
    return k;
}
static std::string jesc(const std::string &s) { std::string o; for (char c : s) { if (c == '"' || c == '\\') { o += '\\'; o += c; } else if ((unsigned char)c < 0x20) o += ' '; else o += c; } return o; }

int main(int argc, char **argv) {
    setvbuf(stdout, nullptr, _IOLBF, 0);
    load_symbols(argv[0]);
    std::string mode = argc > 1 ? argv[1] : "", prop, tier = "quick", frag, replay_dir = "replays", known_path = "KNOWN_FINDINGS.txt", file;
    uint64_t vseed = 20261003, max_runs = 0;
    double secs = 0;
    int workers = 16;
    if (const char *e = getenv("VERIF_SEED")) vseed = strtoull(e, 0, 10);
    for (int i = 2; i < argc; i++) {
        std::string a = argv[i];
        auto nxt = [&]() -> std::string { return i + 1 < argc ? argv[++i] : ""; };
        if (a == "--tier") tier = nxt(); else if (a == "--seed") vseed = strtoull(nxt().c_str(), 0, 10); else if (a == "--runs") max_runs = strtoull(nxt().c_str(), 0, 10);
        else if (a == "--secs") secs = atof(nxt().c_str()); else if (a == "--workers") workers = atoi(nxt().c_str()); else if (a == "--fragment") frag = nxt();
        else if (a == "--replays") replay_dir = nxt(); else if (a == "--known") known_path = nxt(); else if (a == "--tmp") g_tmp = nxt();
        else if (prop.empty() && a[0] != '-') prop = a;
    }
    mkdir(g_tmp.c_str(), 0755);
    if (mode == "replay") {
        W2Plan p;
        if (!w2plan_from_text(read_file(prop), p)) { fprintf(stderr, "bad w2 plan\n"); return 2; }
        auto v = evaluate(p, nullptr, nullptr);
        for (auto &x : v) printf("replay: class=%s :: %s\n", x.cls.c_str(), x.detail.c_str());
        bool hit = false;
        for (auto &x : v) if (p.expect_class.empty() || x.cls == p.expect_class) hit = true;
        if (v.empty()) { printf("replay: no violation\n"); return 0; }
        if (!hit) { printf("replay: recorded class %s not reproduced\n", p.expect_class.c_str()); return 2; }
        printf("VIOLATION property=%s replay=%s\n", p.prop.c_str(), prop.c_str());
        return 1;
    }
    if (mode == "genplan") { printf("%s", w2plan_to_text(gen_w2(prop, vseed, max_runs)).c_str()); return 0; }
    if (mode != "check" || prop.empty()) { fprintf(stderr, "usage: w2sim check <C01|C04|C17|C18|C19> ... | replay <file>\n"); return 2; }
    bool thorough = tier == "thorough";
    if (secs <= 0) secs = thorough ? 300 : 15;
    if (!max_runs) max_runs = 100000000ull;
    double t0 = wall_s(), deadline = t0 + secs;
    printf("w2 check %s tier=%s VERIF_SEED=%llu workers=%d budget=%.0fs\n", prop.c_str(), tier.c_str(), (unsigned long long)vseed, workers, secs);
    // workers: each evaluates a stripe of indices, every evaluation in forked children
    std::vector<pid_t> pids;
    std::vector<std::string> files;
    for (int w = 0; w < workers; w++) {
        std::string rf = g_tmp + "/w2w" + std::to_string(w) + "." + std::to_string(getpid()) + ".res";
        files.push_back(rf);
        fflush(stdout);
        pid_t pid = fork();
        if (pid == 0) {
            std::ofstream out(rf);
            std::map<std::string, uint64_t> probes;
            std::map<std::string, std::pair<uint64_t, std::string>> found; // class|detail-key -> first index
            uint64_t runs = 0;
            std::set<uint64_t> distinct;
            for (uint64_t idx = (uint64_t)w; idx < max_runs && wall_s() < deadline; idx += (uint64_t)workers) {
                W2Plan p = gen_w2(prop, vseed, idx);
                ChildRes j;
                auto v = evaluate(p, &j, &probes);
                runs++;
                if (j.ok) distinct.insert(j.hash);
                if (runs <= 2) out << "sample nics=" << p.nics.size() << " events=" << p.evs.size() << " p_call=" << p.p_call << " p_mem=" << p.p_mem << " pct=" << p.pct_thread << "@" << p.pct_access << " family=" << p.family << "\n";
                for (auto &x : v) { std::string key = x.cls + "\t" + x.detail; if (!found.count(key)) found[key] = {idx, x.detail}; }
                // determinism: same plan twice -> same log hash
                if (idx % 53 == 0 && j.ok) { ChildRes k = exec_child(p, -1); probes["determinism_reruns"]++; if (!k.ok || k.hash != j.hash) probes["determinism_mismatch"]++; }
            }
            out << "runs " << runs << "\n";
            for (auto h : distinct) out << "h " << h << "\n";
            for (auto &kv : probes) out << "probe " << kv.first << " " << kv.second << "\n";
            for (auto &kv : found) out << "found " << kv.second.first << " " << kv.first << "\n";
            out.close();
            _exit(0);
        }
        pids.push_back(pid);
    }
    for (auto pid : pids) { int st; waitpid(pid, &st, 0); }
    uint64_t runs = 0;
    std::set<uint64_t> distinct;
    std::map<std::string, uint64_t> probes;
    std::map<std::string, std::pair<uint64_t, std::string>> found; // class\tdetail -> (index)
    std::vector<std::string> samples;
    for (auto &f : files) {
        std::ifstream in(f);
        std::string line;
        while (std::getline(in, line)) {
            std::istringstream ls(line);
            std::string k;
            ls >> k;
            if (k == "runs") { uint64_t v; ls >> v; runs += v; }
            else if (k == "h") { uint64_t v; ls >> v; distinct.insert(v); }
            else if (k == "probe") { std::string n; uint64_t v; ls >> n >> v; probes[n] += v; }
            else if (k == "sample") { if (samples.size() < 4) samples.push_back(line.substr(7)); }
            else if (k == "found") { uint64_t idx; ls >> idx; std::string rest; std::getline(ls, rest); rest = rest.substr(1); if (!found.count(rest) || idx < found[rest].first) found[rest] = {idx, ""}; }
        }
        unlink(f.c_str());
    }
    auto known = load_known(known_path);
    int nviol = 0, nknown = 0, harness = 0;
    std::vector<std::string> vlines, klines, vjson;
    mkdir(replay_dir.c_str(), 0755); mkdir((replay_dir + "/" + prop).c_str(), 0755);
    // one representative per (class, known-or-not): details may carry run-specific numbers
    {
        std::map<std::string, std::pair<uint64_t, std::string>> grouped;
        for (auto &kv : found) {
            auto tab = kv.first.find('\t');
            std::string cls = kv.first.substr(0, tab), det = kv.first.substr(tab + 1);
            bool is_known = false;
            for (auto &k : known) if (k.prop == prop && k.cls == cls && (k.key.empty() || det.find(k.key) != std::string::npos)) is_known = true;
            std::string gkey = is_known ? kv.first : cls; // known findings are matched by their exact detail, unknown ones grouped by class
            if (!grouped.count(gkey) || kv.second.first < grouped[gkey].first) grouped[gkey] = {kv.second.first, kv.first};
        }
        std::map<std::string, std::pair<uint64_t, std::string>> regrouped;
        for (auto &g : grouped) regrouped[g.second.second] = {g.second.first, ""};
        found.swap(regrouped);
    }
    double post_deadline = wall_s() + (thorough ? 300 : 60);
    for (auto &kv : found) {
        auto tab = kv.first.find('\t');
        std::string cls = kv.first.substr(0, tab), det = kv.first.substr(tab + 1);
        const Known *kn = nullptr;
        for (auto &k : known) if (k.prop == prop && k.cls == cls && (k.key.empty() || det.find(k.key) != std::string::npos)) kn = &k;
        if (kn) { nknown++; klines.push_back("KNOWN-FINDING: property=" + prop + " " + cls + " :: " + det); continue; }
        // minimise: drop events while the same class and detail persist
        W2Plan p = gen_w2(prop, vseed, kv.second.first);
        bool exact = cls == "C17:data-race"; // races are identified by object and functions; other details may vary with the plan
        auto still = [&](const W2Plan &c) { auto v = evaluate(c, nullptr, nullptr); for (auto &x : v) if (x.cls == cls && (!exact || x.detail == det)) return true; return false; };
        if (!still(p)) { printf("HARNESS: %s (%s) at index %llu does not reproduce in isolation\n", cls.c_str(), det.c_str(), (unsigned long long)kv.second.first); harness++; continue; }
        size_t before = p.evs.size();
        for (size_t i = 0; i < p.evs.size() && wall_s() < post_deadline;) { W2Plan c = p; c.evs.erase(c.evs.begin() + i); if (!c.evs.empty() && still(c)) p = c; else i++; }
        { W2Plan c = p; c.p_mem = 0; c.p_call = 0; c.pct_thread = -1; if (still(c)) p = c; }
        if (!still(p)) { harness++; continue; }
        p.expect_class = cls;
        char name[256];
        snprintf(name, sizeof name, "%s/%s/w2-%llu-%016llx.plan", replay_dir.c_str(), prop.c_str(), (unsigned long long)kv.second.first, (unsigned long long)std::hash<std::string>()(kv.first));
        { std::ofstream f(name); f << "# " << cls << " :: " << det << "\n# W2 (real embedded daemon over simulated libc), run index " << kv.second.first << ", VERIF_SEED " << vseed << ", " << before << " -> " << p.evs.size() << " events\n" << w2plan_to_text(p); }
        std::string cmd = std::string(argv[0]) + " replay " + name + " --tmp " + g_tmp + " > " + g_tmp + "/w2replay.out 2>&1";
        int rc = system(cmd.c_str());
        if (!(WIFEXITED(rc) && WEXITSTATUS(rc) == 1)) { printf("HARNESS: fresh-process replay of %s failed:\n%s\n", name, read_file(g_tmp + "/w2replay.out").c_str()); harness++; continue; }
        nviol++;
        printf("violation class=%s :: %s (w2 run %llu)\n", cls.c_str(), det.c_str(), (unsigned long long)kv.second.first);
        vlines.push_back("VIOLATION property=" + prop + " replay=" + name);
        vjson.push_back("{\"class\":\"" + jesc(cls) + "\",\"detail\":\"" + jesc(det) + "\",\"replay\":\"" + jesc(name) + "\"}");
    }
    double wall = wall_s() - t0;
    if (!frag.empty()) {
        std::ofstream f(frag);
        f << "{\"evaluations\":" << runs << ",\"distinct_schedules_by_log_hash\":" << distinct.size() << ",\"wall_s\":" << wall << ",\"runs_per_hour\":" << (uint64_t)(runs / std::max(wall, 0.001) * 3600)
          << ",\"known_findings_hit\":" << nknown << ",\"violations\":" << nviol << ",\"violation_list\":[";
        for (size_t i = 0; i < vjson.size(); i++) f << (i ? "," : "") << vjson[i];
        f << "],\"samples\":[";
        for (size_t i = 0; i < samples.size(); i++) f << (i ? "," : "") << "\"" << jesc(samples[i]) << "\"";
        f << "],\"probes\":{";
        { bool first = true; for (auto &kv : probes) { f << (first ? "" : ",") << "\"" << jesc(kv.first) << "\":" << kv.second; first = false; } }
        f << "},\"real_components\":\"os/linux/daemon/linux-embedded-main.c (main, fillInterfaceDetails, lltdLoop, listInterfaces), os/linux/lltd_port.c, core\",\"stub_components\":\"libc/kernel calls (socket, bind, ioctl, recvfrom, sendto, getifaddrs, clock_gettime, nanosleep, malloc family, pthread_create/join, stdio), NIC table, thread scheduler, frame histories\"}";
    }
    printf("w2 %s: runs=%llu distinct_logs=%zu preemptions=%llu mem_callbacks=%llu wall=%.1fs reruns=%llu mismatches=%llu\n", prop.c_str(), (unsigned long long)runs, distinct.size(), (unsigned long long)probes["preemptions"],
           (unsigned long long)probes["mem_callbacks"], wall, (unsigned long long)probes["determinism_reruns"], (unsigned long long)probes["determinism_mismatch"]);
    for (auto &l : klines) printf("%s\n", l.c_str());
    for (auto &l : vlines) printf("%s\n", l.c_str());
    if (probes["determinism_mismatch"]) { printf("HARNESS: nondeterministic W2 runs\n"); return 2; }
    if (harness) return 2;
    return nviol ? 1 : 0;
}
